"""Value-mode instances for the bit-level building blocks (C30): add_bits, to_bits, from_bits, find, unit_vector, trailing_zeros, gcp2."""
import z3
from sx.sym import C, SymInt, zt, field_eq_formula, GhostViolation
from sx.value import signed_formula, max_deg
from sx.protocols import rng


def _bit(t, i):          # bit i of integer term t (floor semantics, also for negative t)
    return (t / (1 << i)) % 2


def inst_to_bits(H, l, lbits=None, fxp=0, integral=None):
    mpc = H.rt
    stype = mpc.SecFxp(l, fxp) if fxp else mpc.SecInt(l)
    H.register_field(stype.field); p = stype.field.modulus
    nb = lbits or l
    lo, hi = rng(l)

    def build():
        if fxp and integral:
            w = C.fresh('aw', -((-lo) >> fxp), ((hi - 1) >> fxp) + 1, deg=H.tv); v = w << fxp
            x = stype(stype.field(v), integral=True)
        else:
            x, v = H.secret(stype, 'a', lo, hi, integral=integral) if fxp else H.secret(stype, 'a', lo, hi)
        bits = mpc.to_bits(x, nb) if lbits else mpc.to_bits(x)
        if max_deg(bits) > H.tv: raise GhostViolation('result-degree', 'to_bits returns unreduced sharings')
        return H.open(bits), v

    def check(o, v):
        a = zt(v)
        return [(f'to_bits-bit{i}', field_eq_formula(b, _bit(a, i) * (1 << fxp), p)) for i, b in enumerate(o)] + \
               [('to_bits-length', z3.BoolVal(len(o) == nb))]
    return build, check


def inst_from_bits(H, l):
    mpc = H.rt
    secint = mpc.SecInt(l); H.register_field(secint.field); p = secint.field.modulus

    def build():
        x, v = H.secret(secint, 'a', 0, 1 << (l - 1))
        y = mpc.from_bits(mpc.to_bits(x))
        xs = [H.secret(secint, f'b{i}', 0, 2) for i in range(l - 1)]
        z = mpc.from_bits([s for s, _ in xs])
        return H.open([y, z]), (v, [b for _, b in xs])

    def check(o, info):
        v, bs = info
        return [('from_bits(to_bits(a))==a', field_eq_formula(o[0], zt(v), p)),
                ('from_bits-value', field_eq_formula(o[1], z3.Sum([zt(b) * (1 << i) for i, b in enumerate(bs)]), p))]
    return build, check


def inst_add_bits(H, l, n):
    mpc = H.rt
    secint = mpc.SecInt(l); H.register_field(secint.field); p = secint.field.modulus

    def build():
        xs = [H.secret(secint, f'x{i}', 0, 2) for i in range(n)]; ys = [H.secret(secint, f'y{i}', 0, 2) for i in range(n)]
        z = mpc.add_bits([a for a, _ in xs], [a for a, _ in ys])
        return H.open(z), ([v for _, v in xs], [v for _, v in ys])

    def check(o, info):
        X = z3.Sum([zt(b) * (1 << i) for i, b in enumerate(info[0])]); Y = z3.Sum([zt(b) * (1 << i) for i, b in enumerate(info[1])])
        return [(f'add_bits-bit{i}', field_eq_formula(b, _bit(X + Y, i), p)) for i, b in enumerate(o)] + [('add_bits-length', z3.BoolVal(len(o) == n))]
    return build, check


FIND_VARIANTS = ['default', 'a0', 'e-1', 'eNone', 'elen-1', 'f2pow', 'csf', 'tuple', 'nobits', 'secret_a']


def inst_find(H, l, n, variant):
    mpc = H.rt
    secint = mpc.SecInt(l); H.register_field(secint.field); p = secint.field.modulus
    if variant == 'nobits':
        from sx.protocols import install_l5_stubs
        install_l5_stubs(H, ('sgn', 'is_zero'))      # b != a by the comparison contract (verified under C01)
    If = z3.If

    def build():
        if variant == 'nobits':
            xs = [H.secret(secint, f'x{i}', -2, 3) for i in range(n)]
        else:
            xs = [H.secret(secint, f'x{i}', 0, 2) for i in range(n)]
        X = [a for a, _ in xs]
        extra = None
        if variant == 'default': r = mpc.find(X, 1)
        elif variant == 'a0': r = mpc.find(X, 0)
        elif variant == 'e-1': r = mpc.find(X, 1, e=-1)
        elif variant == 'eNone': r = list(mpc.find(X, 1, e=None))
        elif variant == 'elen-1': r = mpc.find(X, 1, e='len(x)-1')
        elif variant == 'f2pow': r = mpc.find(X, 1, f=lambda i: 1 << i)
        elif variant == 'csf': r = mpc.find(X, 1, cs_f=lambda b, i: (b + 1) << i)
        elif variant == 'tuple': r = list(mpc.find(X, 1, f=lambda i: (i, 1 << i)))
        elif variant == 'nobits': r = mpc.find(X, 2, bits=False)
        elif variant == 'secret_a':
            a, av = H.secret(secint, 'a', 0, 2); extra = av
            r = mpc.find(X, a)
        return H.open(r), ([v for _, v in xs], extra)

    def check(o, info):
        vs, extra = info
        ts = [zt(v) for v in vs]
        target = 0 if variant == 'a0' else 2 if variant == 'nobits' else zt(extra) if variant == 'secret_a' else 1
        e = {'e-1': -1, 'elen-1': n - 1}.get(variant, n)
        first = z3.IntVal(e)
        found = z3.BoolVal(False)
        for i in range(n - 1, -1, -1):
            first = If(ts[i] == target, i, first)
            found = z3.Or(found, ts[i] == target)
        eq = lambda val, ex: field_eq_formula(val, ex, p)
        def pow2(ix):
            t = z3.IntVal(1 << n)
            for i in range(n - 1, -1, -1): t = If(ix == i, 1 << i, t)
            return t
        if variant == 'eNone':
            ixn = z3.IntVal(n)          # raw: index of first occurrence or n? only specified when found
            return [('find-nf', eq(o[0], If(found, 0, 1))), ('find-raw-index-when-found', z3.Implies(found, eq(o[1], first)))]
        if variant in ('f2pow', 'csf'): return [('find-f(ix)', eq(o, pow2(first)))]
        if variant == 'tuple': return [('find-tuple-ix', eq(o[0], first)), ('find-tuple-f', eq(o[1], pow2(first)))]
        return [('find-index', eq(o, first))]
    return build, check


def inst_unit_vector(H, l, n):
    mpc = H.rt
    secint = mpc.SecInt(l); H.register_field(secint.field); p = secint.field.modulus

    def build():
        a, av = H.secret(secint, 'a', 0, n)
        u = mpc.unit_vector(a, n)
        if max_deg(u) > H.tv: raise GhostViolation('result-degree', 'unit_vector returns unreduced sharings')
        return H.open(u), av

    def check(o, av):
        return [(f'unit_vector-{j}', field_eq_formula(b, z3.If(zt(av) == j, 1, 0), p)) for j, b in enumerate(o)] + [('unit_vector-length', z3.BoolVal(len(o) == n))]
    return build, check


def inst_trailing_zeros(H, l, lbits=None):
    mpc = H.rt
    secint = mpc.SecInt(l); H.register_field(secint.field); p = secint.field.modulus
    lo, hi = rng(l)

    def build():
        x, v = H.secret(secint, 'a', lo, hi)
        return H.open(mpc.trailing_zeros(x) if lbits is None else mpc.trailing_zeros(x, l=lbits)), v        # explicit l: the l low bits of a full-range (also negative) a

    def check(o, v):
        a = zt(v)
        g = []
        for i, b in enumerate(o):
            # correct up to and including the least significant 1: if bits 0..i-1 of a are all 0, bit i is exact
            lower_zero = a % (1 << i) == 0
            g.append((f'trailing_zeros-bit{i}', z3.Implies(lower_zero, field_eq_formula(b, _bit(a, i), p))))
        return g
    return build, check


def inst_gcp2(H, l, lbits=None):
    mpc = H.rt
    secint = mpc.SecInt(l); H.register_field(secint.field); p = secint.field.modulus
    lo, hi = rng(l)

    def build():
        x, v = H.secret(secint, 'a', lo, hi); y, w = H.secret(secint, 'b', lo, hi)
        if C.pins is None: C.add(z3.Or(zt(v) != 0, zt(w) != 0))
        return H.open(mpc.gcp2(x, y) if lbits is None else mpc.gcp2(x, y, l=lbits)), (v, w)

    def check(o, vw):
        a, b = zt(vw[0]), zt(vw[1])
        if C.pins is not None and vw[0] == 0 and vw[1] == 0: return []
        e = z3.IntVal(1 << l)
        for i in range(l - 1, -1, -1):
            e = z3.If(z3.Or(_bit(a, i) == 1, _bit(b, i) == 1), 1 << i, e)
        return [('gcp2', field_eq_formula(o, e, p))]
    return build, check


def inst_find_empty(H, l):
    """find on the empty list (the function has an explicit empty-list branch)"""
    mpc = H.rt
    secint = mpc.SecInt(l); H.register_field(secint.field)

    def build():
        out = []
        for kw in (dict(), dict(e=-1), dict(e=None), dict(f=lambda i: 1 << i)):
            for a in (1, 0):
                try: r = mpc.find([], a, **kw)
                except Exception as ex: r = ('RAISES', type(ex).__name__)
                out.append((a, sorted(kw), r))
        return out, None

    def check(o, _):
        g = []
        for a, kw, r in o:
            ok = not (isinstance(r, tuple) and r and r[0] == 'RAISES')
            g.append((f'find([], {a}, {kw}) returns (index e / len(x) = 0)', z3.BoolVal(ok)))
        return g
    return build, check


INSTANCES = dict(to_bits=inst_to_bits, from_bits=inst_from_bits, add_bits=inst_add_bits, find=inst_find, unit_vector=inst_unit_vector,
                 trailing_zeros=inst_trailing_zeros, gcp2=inst_gcp2, find_empty=inst_find_empty)
