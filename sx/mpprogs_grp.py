"""Concrete m-party programs on secure groups (C28): every secure group operation against the plain group operation.
Returned in the format of sx.mpprogs (got, want, shares, None, inputs)."""
import random as pyrandom

FAMILIES = ['sym4', 'qr', 'schnorr', 'ec_ed25519_ext', 'ec_ed25519_affine', 'ec_bn256', 'cl']      # hyperelliptic secure groups need NumPy (secure polynomials): absent here


def _group(name):
    import mpyc.fingroups as fg
    if name == 'sym4': return fg.SymmetricGroup(4)
    if name == 'qr': return fg.QuadraticResidues(l=16)
    if name == 'schnorr': return fg.SchnorrGroup(l=40, n=16)
    if name == 'ec_ed25519_ext': return fg.EllipticCurve('Ed25519', 'extended')
    if name == 'ec_ed25519_affine': return fg.EllipticCurve('Ed25519', 'affine')
    if name == 'ec_bn256': return fg.EllipticCurve('BN256', 'projective')
    if name == 'cl': return fg.ClassGroup(l=16)
    raise KeyError(name)


def _plain(group, g):
    """comparable representation of a plain group element"""
    if hasattr(g, 'normalize'):
        try: g = g.normalize()
        except Exception: pass
    v = g.value
    def flat(x):
        if isinstance(x, (list, tuple)): return tuple(flat(y) for y in x)
        try: return int(x)
        except Exception: return repr(x)
    return flat(v)


def P_secgrp_ops(family_index):
    name = FAMILIES[family_index % len(FAMILIES)]

    async def prog(rt, seed):
        rnd = pyrandom.Random(seed)
        group = _group(name)
        secgrp = rt.SecGrp(group)
        sectype = secgrp.sectype
        if name == 'sym4':
            a = group(rnd.sample(range(4), 4)); b = group(rnd.sample(range(4), 4)); n = 24
        else:
            g = group.generator
            n = group.order if group.order is not None else 1 << 20
            a = group.repeat(g, rnd.randrange(1, min(n, 1 << 30))); b = group.repeat(g, rnd.randrange(1, min(n, 1 << 30)))
        e = rnd.choice([0, 1, 2, 3, 5, 11, -1, -4])
        heavy = name.startswith('ec') or name == 'cl'          # secure curve / class-group operations cost hundreds of resharings each
        x, y = secgrp(a), secgrp(b)
        xin = rt.input(secgrp(a), senders=0)          # shared by party 0 (others contribute a dummy of the same shape)
        ops, exp, tags = [], [], []
        def add(tag, z, w): ops.append(z); exp.append(w); tags.append(tag)
        op = group.operation
        add('x@y', x @ y, op(a, b)); add('a@y', a @ y, op(a, b))
        add('~x', ~x, group.inversion(a)); add('x^e', x ^ e, group.repeat(a, e))
        add('input', xin, a)
        if not heavy:
            add('x@b', x @ b, op(a, b)); add('x@~x', x @ ~x, group.identity); add('input@y', xin @ y, op(a, b))
        add('if_else(1)', secgrp.if_else(sectype(1), x, y), a); add('if_else(0)', secgrp.if_else(sectype(0), x, b), b)
        if not heavy: add('repeat(x, e)', secgrp.repeat(x, e), group.repeat(a, e))
        eqs = [x == y, x == a] if heavy else [x == y, x == x, x != y, x == a]
        eq_exp = [int(a == b), 1] if heavy else [int(a == b), 1, int(a != b), 1]
        if name in ('qr', 'schnorr') or name.startswith('ec'):          # prime-order groups: exponents in the secure field of the group order
            secexp = rt.SecFld(modulus=group.order)
            try:
                k1 = rnd.randrange(0, group.order)
                kx = rt.input(secexp(k1), senders=0)          # dealt by party 0: a non-constant sharing (secexp(k1) alone is a constant polynomial)
                add('repeat(a, [k])', secgrp.repeat(a, kx), group.repeat(a, k1))          # public base, secret exponent (per-party shares)
            except Exception as ex:      # noqa
                add('repeat-secret-exponent raised ' + type(ex).__name__, x, None)
        outs = await rt.output(ops)
        eqo = await rt.output(eqs)
        got, want = [], []
        for tag, o, w in zip(tags, outs, exp):
            if w is None: continue
            got.append((tag, _plain(group, o) == _plain(group, w) or o == w)); want.append((tag, True))
        got += [('eq', [int(v) for v in eqo])]; want += [('eq', eq_exp)]
        return got, want, [], None, (name, _plain(group, a), _plain(group, b), e)
    return prog


def P_secgrp_exp(family_index):
    """secret exponents: secure field of the group order and secure integers, public and secret bases, public output (repeat_public)"""
    name = FAMILIES[family_index % len(FAMILIES)]

    async def prog(rt, seed):
        rnd = pyrandom.Random(seed)
        group = _group(name)
        secgrp = rt.SecGrp(group)
        g = group.generator
        n = group.order
        a = group.repeat(g, rnd.randrange(1, min(n, 1 << 30)))
        x = secgrp(a)
        secfld = rt.SecFld(modulus=n)
        secint = rt.SecInt(16)
        k1 = rnd.randrange(0, n); k2 = rnd.choice([0, 1, 2, 3, 7, 100, 32767])
        got, want = [], []
        def chk(tag, o, w): got.append((tag, _plain(group, o) == _plain(group, w) or o == w)); want.append((tag, True))
        # exponents DEALT by party 0 (non-constant sharings: with a constant such as secfld(k) every party holds the same share and a wrong
        # recombination coefficient cannot show)
        f1 = rt.input(secfld(k1), senders=0); f2 = rt.input(secfld(k2), senders=0); i2 = rt.input(secint(k2), senders=0)
        chk('a^[k] field exponent', await rt.output(secgrp.repeat(a, f1)), group.repeat(a, k1))
        chk('a^[-k] field exponent', await rt.output(secgrp.repeat(a, -f2)), group.repeat(a, -k2))
        chk('[x]^[k] field exponent', await rt.output(secgrp.repeat(x, f2)), group.repeat(a, k2))
        chk('[x]^[k] secure-int exponent', await rt.output(secgrp.repeat(x, i2)), group.repeat(a, k2))
        chk('repeat_public(a, [k])', await secgrp.repeat_public(a, f1), group.repeat(a, k1))
        chk('repeat_public([a, g], [k1, k2])', await secgrp.repeat_public([a, g], [f1, f2]), group.operation(group.repeat(a, k1), group.repeat(g, k2)))
        return got, want, [], None, (name, _plain(group, a), k1, k2)
    return prog


def P_secgrp_expint(family_index):
    """public base, exponent a dealt SECURE INTEGER (its own program: the one call site of a listed known finding)"""
    name = FAMILIES[family_index % len(FAMILIES)]

    async def prog(rt, seed):
        rnd = pyrandom.Random(seed)
        group = _group(name)
        secgrp = rt.SecGrp(group)
        g = group.generator
        a = group.repeat(g, rnd.randrange(1, min(group.order, 1 << 30)))
        secint = rt.SecInt(16)
        k2 = rnd.choice([1, 2, 3, 7, 100, 32767])
        i2 = rt.input(secint(k2), senders=0)
        o = await rt.output(secgrp.repeat(a, i2))
        w = group.repeat(a, k2)
        return [('a^[k] secure-int exponent', _plain(group, o) == _plain(group, w))], [('a^[k] secure-int exponent', True)], [], None, (name, _plain(group, a), k2)
    return prog


PROGRAMS = dict(secgrp_ops=P_secgrp_ops, secgrp_exp=P_secgrp_exp, secgrp_expint=P_secgrp_expint)
