"""Value-mode instances (engine B) for the secure-integer / fixed-point protocol layer of mpyc/runtime.py.

Layering (DESIGN §3): the functions of layer 5 that are verified *themselves* against their value-level contract
(sgn, trunc, lsb, _mod, is_zero, ...) may be replaced by that contract (`use=[...]`) when a function built on top of
them is verified -- callers are checked against callee contracts, not bodies.
"""
import z3, math
from sx.sym import C, SymInt, SymBool, zt, field_eq_formula, Concretised, GhostViolation, is_zero_formula
from sx.value import signed_formula, max_deg, done_future


def rng(l):
    return -(1 << (l - 1)), 1 << (l - 1)


def ival(x):
    """integer (signed) z3 term of a secure number's share / field element / int, as seen by a contract stub"""
    v = x
    if hasattr(v, 'share'): v = v.share
    if hasattr(v, 'result') and not hasattr(v, 'value'): v = v.result()
    field = type(v) if hasattr(v, 'value') else None
    if field is not None: v = v.value
    if not isinstance(v, SymInt):
        if field is not None and field.is_signed and v > field.modulus >> 1: v -= field.modulus
        return v
    C.nonaffine_ok += 1
    try:
        p = field.modulus
        m = (v % p).mat()
        return SymInt(z3.If(m.z > p >> 1, m.z - p, m.z), -(p >> 1), p >> 1)
    finally:
        C.nonaffine_ok -= 1


def _mk(stype, value, H, integral=None):
    """secure number of type stype with (scaled) integer value `value`, as a fresh degree-t_v sharing"""
    v = value.relabel(H.tv) if isinstance(value, SymInt) else value
    e = stype.field(v)
    if stype.frac_length: return stype(e, integral=integral)
    return stype(e)


def _require(cond, what):
    """precondition of a contract stub: must be valid on the current path"""
    if isinstance(cond, bool):
        if not cond: raise GhostViolation('stub-precondition', what)
        return
    if not C.valid(cond):
        raise GhostViolation('stub-precondition', what)


# ------------------------------------------------------------------ layer-5 contract stubs
def install_l5_stubs(H, use):
    rt = H.rt
    if 'sgn' in use:
        def sgn(a, l=None, LT=False, EQ=False):
            H.count('sgn*')
            stype = type(a); f = stype.frac_length
            l = l or stype.bit_length
            if max_deg(a) > H.tv: raise GhostViolation('stub-degree', 'sgn of unreduced sharing')
            v = SymInt.of(ival(a))        # scaled integer
            lo, hi = rng(l + f)
            _require(z3.And(v.z >= lo, v.z < hi), f'sgn: argument outside the signed {l}+{f}-bit range')
            if LT: r = z3.If(v.z < 0, 1, 0); b = (0, 1)
            elif EQ: r = z3.If(v.z == 0, 1, 0); b = (0, 1)
            else: r = z3.If(v.z < 0, -1, z3.If(v.z == 0, 0, 1)); b = (-1, 1)
            return _mk(stype, SymInt(r, *b) << f if not C.pins else _c(r) << f, H, integral=True)
        rt.sgn = sgn
    if 'is_zero' in use:
        def is_zero(a):
            H.count('is_zero*')
            stype = type(a); f = stype.frac_length
            v = SymInt.of(ival(a))
            r = z3.If(v.z == 0, 1, 0)
            return _mk(stype, SymInt(r, 0, 1) << f if not C.pins else _c(r) << f, H, integral=True)
        rt.is_zero = is_zero
    if 'lsb' in use:
        def lsb(a):
            H.count('lsb*')
            stype = type(a); f = stype.frac_length
            v = SymInt.of(ival(a))
            r = (v.z / (1 << f)) % 2 if f else v.z % 2
            return _mk(stype, SymInt(r, 0, 1) << f if not C.pins else _c(r) << f, H, integral=True)
        rt.lsb = lsb
    if 'trunc' in use:
        def trunc(x, f=None, l=None):
            H.count('trunc*')
            x_is_list = isinstance(x, list)
            xs = x if x_is_list else [x]
            out = []
            for a in xs:
                stype = type(a)
                ff = stype.frac_length if f is None else f
                v = SymInt.of(ival(a))
                u = C.fresh('trunc_up', 0, 2)           # floor or ceiling, the callee's choice
                fl = v.z / (1 << ff)
                if C.pins is None:
                    C.add(z3.Implies(v.z % (1 << ff) == 0, zt(u) == 0))
                    r = SymInt(fl + u.z, v.lo >> ff, (v.hi >> ff) + 1)
                else:
                    r = _c(fl) + (u if _c(v.z % (1 << ff)) else 0)
                out.append(_mk(stype, r, H, integral=None) if hasattr(a, 'share') else stype.field(r))
            return out if x_is_list else out[0]
        rt.trunc = trunc


def _c(term):
    """concrete int of a ground z3 term (replay mode)"""
    t = z3.simplify(term) if z3.is_expr(term) else term
    return t.as_long() if z3.is_expr(t) else int(t)


# ------------------------------------------------------------------ expression instances for secure integers
def _ops_int(mpc):
    """name -> (arity, secure expression, z3 oracle on integer terms, precondition on integer terms (l given))"""
    If, And, Or = z3.If, z3.And, z3.Or
    def inr(l, *vs): lo, hi = rng(l); return And(*[And(v >= lo, v < hi) for v in vs])
    def pyfloordiv(a, b): return a / b if b > 0 else (-a) / (-b)          # z3 Euclidean div; b concrete
    def pymod(a, b): return a % b if b > 0 else -((-a) % (-b))
    T = {
        'add': (2, lambda x, y: x + y, lambda a, b: a + b, None),
        'sub': (2, lambda x, y: x - y, lambda a, b: a - b, None),
        'mul': (2, lambda x, y: x * y, lambda a, b: a * b, None),
        'neg': (1, lambda x: -x, lambda a: -a, None),
        'pos': (1, lambda x: +x, lambda a: a, None),
        'addc': (1, lambda x: x + 3, lambda a: a + 3, None),
        'rsubc': (1, lambda x: 5 - x, lambda a: 5 - a, None),
        'mulc': (1, lambda x: x * -3, lambda a: a * -3, None),
        'rmulc': (1, lambda x: 2 * x, lambda a: 2 * a, None),
        'sq': (1, lambda x: x * x, lambda a: a * a, None),
        'pow3': (1, lambda x: x ** 3, lambda a: a * a * a, None),
        'pow5': (1, lambda x: x ** 5, lambda a: a * a * a * a * a, None),
        'pow0': (1, lambda x: x ** 0, lambda a: z3.IntVal(1), None),
        'lt': (2, lambda x, y: x < y, lambda a, b: If(a < b, 1, 0), lambda l, a, b: inr(l, a - b)),
        'le': (2, lambda x, y: x <= y, lambda a, b: If(a <= b, 1, 0), lambda l, a, b: inr(l, a - b, b - a)),
        'gt': (2, lambda x, y: x > y, lambda a, b: If(a > b, 1, 0), lambda l, a, b: inr(l, b - a)),
        'ge': (2, lambda x, y: x >= y, lambda a, b: If(a >= b, 1, 0), lambda l, a, b: inr(l, a - b)),
        'eq': (2, lambda x, y: x == y, lambda a, b: If(a == b, 1, 0), lambda l, a, b: inr(l, a - b)),
        'ne': (2, lambda x, y: x != y, lambda a, b: If(a != b, 1, 0), lambda l, a, b: inr(l, a - b)),
        'ltc': (1, lambda x: x < 1, lambda a: If(a < 1, 1, 0), lambda l, a: inr(l, a - 1)),
        'sgn': (1, lambda x: mpc.sgn(x), lambda a: If(a < 0, -1, If(a == 0, 0, 1)), None),
        'sgn_LT': (1, lambda x: mpc.sgn(x, LT=True), lambda a: If(a < 0, 1, 0), None),
        'sgn_EQ': (1, lambda x: mpc.sgn(x, EQ=True), lambda a: If(a == 0, 1, 0), None),
        'is_zero': (1, lambda x: mpc.is_zero(x), lambda a: If(a == 0, 1, 0), None),
        'abs': (1, lambda x: abs(x), lambda a: If(a < 0, -a, a), lambda l, a: a > -(1 << (l - 1))),
        'lsb': (1, lambda x: mpc.lsb(x), lambda a: a % 2, None),
        'mod2': (1, lambda x: x % 2, lambda a: a % 2, None),
        'min2': (2, lambda x, y: mpc.min(x, y), lambda a, b: If(a < b, a, b), lambda l, a, b: inr(l, a - b)),
        'max2': (2, lambda x, y: mpc.max(x, y), lambda a, b: If(a < b, b, a), lambda l, a, b: inr(l, a - b)),
        'if_else': (3, lambda c, x, y: mpc.if_else(c, x, y), lambda c, a, b: If(c == 1, a, b), lambda l, c, a, b: Or(c == 0, c == 1)),
        'if_else_method': (3, lambda c, x, y: c.if_else(x, y), lambda c, a, b: If(c == 1, a, b), lambda l, c, a, b: Or(c == 0, c == 1)),
    }
    for b in (3, 4, 5, 7, 8):
        T[f'mod{b}'] = (1, (lambda b: lambda x: x % b)(b), (lambda b: lambda a: pymod(a, b))(b), None)
        T[f'floordiv{b}'] = (1, (lambda b: lambda x: x // b)(b), (lambda b: lambda a: pyfloordiv(a, b))(b), None)
    return T


def inst_int_op(H, l, op, use=()):
    """one secure-integer operation on fresh l-bit secrets, real code, compared with Python int semantics"""
    mpc = H.rt
    secint = mpc.SecInt(l); H.register_field(secint.field)
    install_l5_stubs(H, use)
    p = secint.field.modulus
    arity, sec_f, z3_f, pre = _ops_int(mpc)[op]
    lo, hi = rng(l)

    def build():
        xs, vs = [], []
        for i in range(arity):
            x, v = H.secret(secint, 'abcd'[i], lo, hi)
            xs.append(x); vs.append(v)
        if pre is not None and C.pins is None:
            C.add(pre(l, *[zt(v) for v in vs]))
        z = sec_f(*xs)
        if max_deg(z) > H.tv:
            raise GhostViolation('result-degree', f'{op} returns a sharing of degree {max_deg(z)} > t')
        return H.open(z), vs

    def check(o, vs):
        terms = [zt(v) for v in vs]
        if pre is not None and C.pins is not None and not _truth(pre(l, *terms)):
            return []
        return [(op, field_eq_formula(o, z3_f(*terms), p))]
    return build, check


def _truth(f):
    s = z3.Solver(); s.add(z3.Not(f)); return s.check() == z3.unsat


def inst_divmod(H, l, b):
    mpc = H.rt
    secint = mpc.SecInt(l); H.register_field(secint.field); p = secint.field.modulus
    lo, hi = rng(l)

    def build():
        x, v = H.secret(secint, 'a', lo, hi)
        q, r = divmod(x, b)
        return H.open([q, r]), v

    def check(o, v):
        a = zt(v)
        return [('divmod-q', field_eq_formula(o[0], a / b, p)), ('divmod-r', field_eq_formula(o[1], a % b, p))]
    return build, check


def inst_list_op(H, l, op, n, use=('sgn',)):
    """sum / prod / all / any / in_prod / min / max / argmin / argmax / min_max / sorted over n fresh secrets (comparisons by contract)"""
    mpc = H.rt
    secint = mpc.SecInt(l); H.register_field(secint.field); p = secint.field.modulus
    install_l5_stubs(H, use)
    small = op in ('prod',)
    keyed = op.endswith(('_neg', '_sq'))
    lo, hi = (-2, 3) if small else rng(l - 1) if (keyed or op in ('min', 'max', 'argmin', 'argmax', 'min_max', 'sorted', 'sorted_rev')) else rng(l)
    if op.endswith('_sq'): lo, hi = -3, 4
    If = z3.If

    def build():
        xs, vs = [], []
        bits = op in ('all', 'any')
        for i in range(n):
            x, v = H.secret(secint, f'x{i}', 0 if bits else lo, 2 if bits else hi)
            xs.append(x); vs.append(v)
        if op == 'sum': z = mpc.sum(xs)
        elif op == 'sum_start': z = mpc.sum(xs, start=secint(7))
        elif op == 'prod': z = mpc.prod(xs)
        elif op == 'all': z = mpc.all(xs)
        elif op == 'any': z = mpc.any(xs)
        elif op == 'in_prod': z = mpc.in_prod(xs[:n // 2], xs[n // 2: 2 * (n // 2)])
        elif op == 'min': z = mpc.min(xs)
        elif op == 'max': z = mpc.max(xs)
        elif op == 'min_max': z = list(mpc.min_max(xs))
        elif op == 'argmin': z = list(mpc.argmin(xs))
        elif op == 'argmax': z = list(mpc.argmax(xs))
        elif op == 'sorted': z = mpc.sorted(xs)
        elif op == 'sorted_rev': z = mpc.sorted(xs, reverse=True)
        elif keyed:
            # key functions (C29 quantifies over keys): negation (order reversed) and squaring (not monotone, ties between a and -a)
            key = (lambda a: -a) if op.endswith('_neg') else (lambda a: a * a)
            base = op.rsplit('_', 1)[0]
            if base == 'min': z = mpc.min(xs, key=key)
            elif base == 'max': z = mpc.max(xs, key=key)
            elif base == 'min_max': z = list(mpc.min_max(xs, key=key))
            elif base == 'argmin': z = list(mpc.argmin(xs, key=key))
            elif base == 'argmax': z = list(mpc.argmax(xs, key=key))
            elif base == 'sorted': z = mpc.sorted(xs, key=key)
            else: raise KeyError(op)
        else: raise KeyError(op)
        if max_deg(z) > H.tv:
            raise GhostViolation('result-degree', f'{op} returns a sharing of degree {max_deg(z)} > t')
        return H.open(z), vs

    def zmin(ts):
        m = ts[0]
        for t in ts[1:]: m = If(t < m, t, m)
        return m

    def zmax(ts):
        m = ts[0]
        for t in ts[1:]: m = If(t > m, t, m)
        return m

    def check(o, vs):
        ts = [zt(v) for v in vs]
        eq = lambda val, e: field_eq_formula(val, e, p)
        if op == 'sum': return [(op, eq(o, z3.Sum(ts)))]
        if op == 'sum_start': return [(op, eq(o, z3.Sum(ts) + 7))]
        if op == 'prod':
            e = z3.IntVal(1)
            for t in ts: e = e * t
            return [(op, eq(o, e))]
        if op == 'all': return [(op, eq(o, If(z3.And(*[t == 1 for t in ts]), 1, 0)))]
        if op == 'any': return [(op, eq(o, If(z3.Or(*[t == 1 for t in ts]), 1, 0)))]
        if op == 'in_prod':
            h = n // 2
            return [(op, eq(o, z3.Sum([ts[i] * ts[h + i] for i in range(h)])))]
        if op == 'min': return [(op, eq(o, zmin(ts)))]
        if op == 'max': return [(op, eq(o, zmax(ts)))]
        if op == 'min_max': return [('min', eq(o[0], zmin(ts))), ('max', eq(o[1], zmax(ts)))]
        if op in ('argmin', 'argmax'):
            ext = zmin(ts) if op == 'argmin' else zmax(ts)
            first = z3.IntVal(n - 1)
            for i in range(n - 2, -1, -1): first = If(ts[i] == ext, i, first)
            return [(op + '-index-of-first', eq(o[0], first)), (op + '-value', eq(o[1], ext))]
        if keyed:
            base = op.rsplit('_', 1)[0]
            kf = (lambda t: -t) if op.endswith('_neg') else (lambda t: t * t)
            ks = [kf(t) for t in ts]
            kmin, kmax = zmin(ks), zmax(ks)
            member = lambda val: z3.Or(*[eq(val, t) for t in ts])
            sval = lambda val: signed_formula(val, p)
            if base in ('min', 'max'):
                return [(op + '-is-an-element', member(o)), (op + '-key-extreme', kf(sval(o)) == (kmin if base == 'min' else kmax))]
            if base == 'min_max':
                return [(op + '-elements', z3.And(member(o[0]), member(o[1]))), (op + '-min-key', kf(sval(o[0])) == kmin), (op + '-max-key', kf(sval(o[1])) == kmax)]
            if base in ('argmin', 'argmax'):
                ext = kmin if base == 'argmin' else kmax
                first = z3.IntVal(n - 1)
                for i in range(n - 2, -1, -1): first = If(ks[i] == ext, i, first)
                sel = ts[n - 1]
                for i in range(n - 2, -1, -1): sel = If(first == i, ts[i], sel)
                return [(op + '-index-of-first', eq(o[0], first)), (op + '-value', eq(o[1], sel))]
            if base == 'sorted':
                os_ = [sval(v) for v in o]
                goals = [(f'{op}-ordered-{i}', kf(os_[i]) <= kf(os_[i + 1])) for i in range(n - 1)]
                for i in range(n):
                    goals.append((f'{op}-perm-{i}', z3.Sum([If(t == ts[i], 1, 0) for t in ts]) == z3.Sum([If(s_ == ts[i], 1, 0) for s_ in os_])))
                return goals
        if op in ('sorted', 'sorted_rev'):
            os_ = [signed_formula(v, p) for v in o]
            goals = []
            for i in range(n - 1):
                goals.append((f'{op}-ordered-{i}', os_[i] <= os_[i + 1] if op == 'sorted' else os_[i] >= os_[i + 1]))
            # permutation: multiset equality via counting each input value
            for i in range(n):
                cnt_in = z3.Sum([If(t == ts[i], 1, 0) for t in ts])
                cnt_out = z3.Sum([If(s == ts[i], 1, 0) for s in os_])
                goals.append((f'{op}-perm-{i}', cnt_in == cnt_out))
            return goals
        raise KeyError(op)
    return build, check


def inst_if_swap(H, l, lst):
    mpc = H.rt
    secint = mpc.SecInt(l); H.register_field(secint.field); p = secint.field.modulus
    lo, hi = rng(l)
    If = z3.If

    def build():
        c, cv = H.secret(secint, 'c', 0, 2)
        if lst:
            xs = [H.secret(secint, f'x{i}', lo, hi) for i in range(2)]; ys = [H.secret(secint, f'y{i}', lo, hi) for i in range(2)]
            u, w = mpc.if_swap(c, [a for a, _ in xs], [a for a, _ in ys])
            return H.open(list(u) + list(w)), (cv, [v for _, v in xs], [v for _, v in ys])
        x, xv = H.secret(secint, 'x', lo, hi); y, yv = H.secret(secint, 'y', lo, hi)
        u, w = mpc.if_swap(c, x, y)
        return H.open([u, w]), (cv, [xv], [yv])

    def check(o, info):
        cv, xs, ys = info
        c = zt(cv); k = len(xs); g = []
        for i in range(k):
            g.append((f'if_swap-first-{i}', field_eq_formula(o[i], If(c == 1, zt(ys[i]), zt(xs[i])), p)))
            g.append((f'if_swap-second-{i}', field_eq_formula(o[k + i], If(c == 1, zt(xs[i]), zt(ys[i])), p)))
        return g
    return build, check


def inst_matrix_prod(H, l):
    mpc = H.rt
    secint = mpc.SecInt(l); H.register_field(secint.field); p = secint.field.modulus
    lo, hi = rng(l)

    def build():
        A = [[H.secret(secint, f'a{i}{j}', lo, hi) for j in range(2)] for i in range(2)]
        Bm = [[H.secret(secint, f'b{i}{j}', lo, hi) for j in range(2)] for i in range(2)]
        Z = mpc.matrix_prod([[x for x, _ in r] for r in A], [[x for x, _ in r] for r in Bm])
        return H.open([z for r in Z for z in r]), ([[v for _, v in r] for r in A], [[v for _, v in r] for r in Bm])

    def check(o, info):
        A, Bm = info
        g = []
        for i in range(2):
            for j in range(2):
                e = z3.Sum([zt(A[i][k]) * zt(Bm[k][j]) for k in range(2)])
                g.append((f'matrix_prod-{i}{j}', field_eq_formula(o[2 * i + j], e, p)))
        return g
    return build, check


def inst_eq_public(H, l):
    """eq_public / is_zero_public through the contract stub of is_zero_public (the real one is checked in mp mode)"""
    mpc = H.rt
    secint = mpc.SecInt(l); H.register_field(secint.field)
    lo, hi = rng(l)

    def build():
        x, a = H.secret(secint, 'a', lo, hi); y, b = H.secret(secint, 'b', lo, hi)
        r = mpc.run(mpc.eq_public(x, y))
        return r, (a, b)

    def check(o, ab):
        a, b = ab
        return [('eq_public', z3.BoolVal(bool(o)) == (zt(a) == zt(b)))]
    return build, check


INSTANCES = dict(int_op=inst_int_op, divmod=inst_divmod, list_op=inst_list_op, if_swap=inst_if_swap, matrix_prod=inst_matrix_prod,
                 eq_public=inst_eq_public)
