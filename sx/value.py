"""Engine B, value mode: one real Runtime (m=1, no_async) whose share-moving primitives are replaced by contract stubs,
running the REAL protocol functions of mpyc/runtime.py on symbolic values.

Ghost `deg`: the runtime's threshold attribute is set to a *virtual* t_v = 1, so the real protocol code computes
`threshold=2*self.threshold` etc. as in a 3-party run; the stubs check
    _reshare  : requires deg(x) <= 2 t_v, ensures deg = t_v
    output    : requires deg(x) <= (threshold or t_v), result public (deg 0)
    is_zero_public : requires deg(a) <= t_v
and every local observation of the integer representative of a value with deg > 0 is a violation (sx/sym.py).
"""
import sys, os, asyncio, functools
import z3
from sx import sym
from sx.sym import C, SymInt, SymBool, Concretised, is_zero_formula, GhostViolation

_state = {}


def runtime():
    if 'rt' not in _state:
        sys.argv = [sys.argv[0] if sys.argv else 'x', '--no-log']
        from mpyc.runtime import mpc
        _state['rt'] = mpc
    return _state['rt']


def done_future(v):
    rt = runtime()
    f = asyncio.Future(loop=rt._loop); f.set_result(v); return f


def walk_syms(obj):
    from mpyc import finfields, asyncoro
    if isinstance(obj, SymInt): yield obj
    elif isinstance(obj, finfields.FiniteFieldElement): yield from walk_syms(obj.value)
    elif isinstance(obj, asyncoro.SecureObject): yield from walk_syms(obj.share)
    elif isinstance(obj, (list, tuple)):
        for x in obj: yield from walk_syms(x)
    elif isinstance(obj, asyncio.Future) and obj.done(): yield from walk_syms(obj.result())


def relabel(obj, deg, opened=False):
    from mpyc import finfields, asyncoro
    if isinstance(obj, SymInt):
        r = obj.relabel(deg)
        if opened: r.opened = True
        return r
    if isinstance(obj, finfields.FiniteFieldElement):
        if isinstance(obj.value, SymInt):
            new = type(obj).__new__(type(obj)); new.value = relabel(obj.value, deg, opened); return new
        return obj
    if isinstance(obj, asyncoro.SecureObject):
        obj.share = relabel(obj.share, deg, opened); return obj
    if isinstance(obj, list): return [relabel(x, deg, opened) for x in obj]
    if isinstance(obj, tuple): return tuple(relabel(x, deg, opened) for x in obj)
    if isinstance(obj, asyncio.Future) and obj.done(): return done_future(relabel(obj.result(), deg, opened))
    return obj


def max_deg(obj):
    return max([s.deg for s in walk_syms(obj)], default=0)


class Harness:
    def __init__(self, k=2, no_prss=False, tv=1, stub_random_bits=True, stub_is_zero_public=True, stub_reciprocal=True):
        self.k, self.no_prss, self.tv = k, no_prss, tv
        self.stub_random_bits, self.stub_izp, self.stub_reciprocal = stub_random_bits, stub_is_zero_public, stub_reciprocal
        self.installed = False
        self.prf_memo = {}
        self.calls = {}

    # ------------------------------------------------------------ install
    def install(self):
        if self.installed: return runtime()
        rt = runtime()
        from mpyc import thresha, finfields, sectypes, runtime as rtmod
        import mpyc.random
        self.rt = rt
        rt.options.sec_param = self.k
        rt.options.no_prss = self.no_prss
        rt.options.no_async = True
        C.tv = self.tv
        self.real = dict(output=type(rt).output.__get__(rt), _reshare=type(rt)._reshare.__get__(rt),
                         _distribute=type(rt)._distribute.__get__(rt), random_bits=type(rt).random_bits.__get__(rt),
                         is_zero_public=type(rt).is_zero_public.__get__(rt))
        H = self

        def with_t0(f, *a, **kw):
            old = rt._threshold; rt._threshold = 0
            try: return f(*a, **kw)
            finally: rt._threshold = old

        def output(x, receivers=None, threshold=None, raw=False):
            H.count('output')
            d = H.tv if threshold is None else threshold
            dg = max_deg(x)
            if dg > d:
                raise GhostViolation('output-threshold', f'output with threshold {d} (t_v={H.tv}) of a degree-{dg} sharing')
            C.opened.append(x)
            if getattr(C, 'openlog', None) is not None:
                # leak ghost (C18): every value handed to output inside a protocol, with the protocol function that opens it
                fr = sys._getframe(1); who = '?'
                while fr is not None:
                    if fr.f_code.co_filename.endswith(('runtime.py', 'random.py', 'statistics.py', 'seclists.py', 'mpctools.py')) and 'mpyc' in fr.f_code.co_filename:
                        who = fr.f_code.co_name; break
                    fr = fr.f_back
                C.openlog.append(dict(x=x, final=bool(getattr(C, 'final_open', False)), who=who, threshold=threshold))
            C.nonaffine_ok += 1
            try:
                y = with_t0(H.real['output'], x, receivers, None, raw)
            finally:
                C.nonaffine_ok -= 1
            return relabel(y, 0, opened=True)

        def _reshare(x):
            H.count('_reshare')
            dg = max_deg(x)
            if dg > 2 * H.tv:
                raise GhostViolation('reshare-degree', f'_reshare of a degree-{dg} sharing (2 t_v = {2 * H.tv})')
            y = with_t0(H.real['_reshare'], x)
            return relabel(y, H.tv)

        def _distribute(x, senders):
            H.count('_distribute')
            C.nonaffine_ok += 1
            try:
                y = with_t0(H.real['_distribute'], x, senders)
            finally:
                C.nonaffine_ok -= 1
            return relabel(y, H.tv)

        def random_bits(sftype, n, signed=False):
            H.count('random_bits')
            if issubclass(sftype, rt.SecureObject):
                field, f = sftype.field, sftype.frac_length
            else:
                field, f = sftype, 0
            if field.characteristic == 2 or not isinstance(field.modulus, int):
                raise Concretised('random_bits stub supports prime fields only')
            out = []
            for _ in range(n):
                b = C.fresh('bit', 0, 2, deg=H.tv)
                v = 2 * b - 1 if signed else b
                if f: v = v << f
                out.append(field(v))
            if issubclass(sftype, rt.SecureObject):
                if f: return [sftype(a, integral=True) for a in out]
                return [sftype(a) for a in out]
            return done_future(out)

        async def is_zero_public(a):
            H.count('is_zero_public')
            if isinstance(a, rt.SecureObject):
                v = a.share
                if isinstance(v, asyncio.Future): v = v.result()
            else:
                v = a
            dg = max_deg(v)
            if dg > H.tv:
                raise GhostViolation('is_zero_public-degree', f'is_zero_public of a degree-{dg} sharing')
            val = v.value if hasattr(v, 'value') else v
            if not isinstance(val, SymInt):
                if getattr(C, 'openlog', None) is not None:      # leak ghost: the public outcome of the zero test is part of every party's view
                    C.openlog.append(dict(x=bool(val == 0), final=False, who='is_zero_public(bit)', threshold=None))
                return val == 0
            return C.branch(is_zero_formula(val))

        def reciprocal(a):
            """contract: a * result == 1 in the field (a != 0); only public-constant arguments are supported symbolically"""
            H.count('reciprocal*')
            stype = type(a)
            v = a.share.value if hasattr(a.share, 'value') else a.share.result().value
            if isinstance(v, SymInt) and not v.is_const:
                raise Concretised('reciprocal of a symbolic value (checked by enumeration instead)')
            v = v.lo if isinstance(v, SymInt) else v
            if v % stype.field.modulus == 0: raise ZeroDivisionError('reciprocal of 0')
            inv = pow(int(v), -1, stype.field.modulus) << stype.frac_length
            return stype(stype.field(inv))
        if self.stub_reciprocal: rt.reciprocal = reciprocal
        rt.output = output
        rt._reshare = _reshare
        rt._distribute = _distribute
        if self.stub_random_bits: rt.random_bits = random_bits
        if self.stub_izp: rt.is_zero_public = is_zero_public
        rt._threshold = self.tv

        # randomness sources
        def prf_call(prf, s, n=None):
            key = (prf.key, prf.max, bytes(s), n)
            if key not in H.prf_memo:
                n_ = 1 if n is None else n
                if isinstance(n, tuple): raise Concretised('PRF with shape')
                H.prf_memo[key] = [C.fresh('prf', 0, prf.max, deg=H.tv) for _ in range(n_)]
            v = H.prf_memo[key]
            return v[0] if n is None else list(v)
        thresha.PRF.__call__ = prf_call

        class _Secrets:
            @staticmethod
            def randbelow(n): return C.fresh('rb', 0, n, deg=0)
            @staticmethod
            def randbits(k): return C.fresh('rbits', 0, 1 << k, deg=0)
            @staticmethod
            def token_bytes(n): return bytes(n)
        thresha.secrets = _Secrets
        rtmod.secrets = _Secrets

        # marshalling (contract of C22: from_bytes(to_bytes(x)) == x)
        finfields.FiniteFieldElement.to_bytes = classmethod(lambda cls, x: ('BYTES', list(x)))
        finfields.FiniteFieldElement.from_bytes = classmethod(lambda cls, data: list(data[1]))

        # symbol-preserving conversions (builtin int() strips int subclasses)
        def signed_(self):
            v = self.value
            if isinstance(v, SymInt):
                m = v.mat(); p = self.modulus
                return SymInt(z3.If(m.z > p >> 1, m.z - p, m.z), -(p >> 1), p >> 1)
            if v > self.modulus >> 1: v -= self.modulus
            return v
        finfields.PrimeFieldElement.signed_ = signed_
        sectypes.SecureInteger._output_conversion = staticmethod(lambda a: a.signed_() if a.is_signed else a.unsigned_())
        sectypes.SecureFixedPoint._output_conversion = classmethod(lambda cls, a: a.signed_())     # scaled integer, not float
        self.installed = True
        return rt

    def count(self, name):
        self.calls[name] = self.calls.get(name, 0) + 1

    def prepare(self):
        """per-path reset"""
        from mpyc import thresha, finfields
        self.prf_memo.clear()
        thresha._recombination_vector.cache_clear(); thresha._f_S_i.cache_clear()
        rt = self.rt
        rt._program_counter = [0, 0]
        rt._pc_level = 0
        rt._threshold = self.tv

    # ------------------------------------------------------------ helpers for drivers
    def register_field(self, field):
        C.field_moduli.add(field.modulus)

    def secret(self, stype, name, lo, hi, integral=None, scale=0):
        """symbolic secure number with value in [lo, hi) (already scaled integer for fixed point)"""
        v = C.fresh(name, lo, hi, deg=self.tv)
        self.register_field(stype.field)
        if stype.frac_length:
            return stype(stype.field(v), integral=integral), v
        return stype(stype.field(v)), v

    def open(self, x):
        """open through the real output (raw) and return SymInt/int values"""
        rt = self.rt
        C.final_open = True          # the driver's own opening of the results: the outputs of the ideal functionality, not a leak
        try:
            y = rt.run(rt.output(x, raw=True)) if not isinstance(x, (int, SymInt)) else x
        finally:
            C.final_open = False
        def val(a):
            return a.value if hasattr(a, 'value') else a
        return [val(a) for a in y] if isinstance(y, list) else val(y)


def signed_formula(v, p):
    """z3 term of the signed representative of field value v (a SymInt possibly N/D mod p)"""
    v = SymInt.of(v)
    C.nonaffine_ok += 1
    try: m = (v % p if v.P is None and p in C.field_moduli else v).mat()
    finally: C.nonaffine_ok -= 1
    return z3.If(m.z > p >> 1, m.z - p, m.z)
