"""mp-mode obligations (engine B): the share-moving primitives of mpyc/runtime.py run by ALL m parties at once.

Symbolic instances: shares/inputs/dealer randomness/PRF outputs are symbols; "the m results form a degree-<=d sharing of v"
is decided exactly on polynomial normal forms (sx/mp.py).  Concrete instances: real randomness (seeded), composite protocols,
with ghost checks at every output/_reshare call and on the network."""
import itertools, math, time, traceback, random as pyrandom
from lib.common import Ob, B
from sx import mp
from sx.mp import Poly, PolyInt, sharing_defect, PartyFailure

CONFIGS_QUICK = [(1, 0), (2, 0), (3, 1), (4, 1), (5, 2)]
CONFIGS_THOROUGH = [(m, t) for m in range(1, 8) for t in range(0, (m + 1) // 2) if 2 * t < m]


def configs(tier):
    return CONFIGS_QUICK if tier == 'quick' else CONFIGS_THOROUGH


def _ob(name, func, t0, bound, bad=None, evals=1, key=None, replay=None):
    o = Ob(name, func, 'symx-mp', B, 'discharged' if bad is None else 'refuted', 'normal-forms', time.time() - t0, bound=bound)
    o.evals = evals
    if bad is not None:
        o.detail = bad
        o.witness = dict(key=key or f'{func}:{name.split("[")[0]}', text=bad, replay=replay)
    return o


def _secint(rt, l=8):
    return rt.SecInt(l)


# ------------------------------------------------------------------ symbolic primitives
def sym_primitives(m, t, no_prss):
    """input / mul+_reshare / output / _randoms on symbols for one (m, t, prss) -> [Ob]"""
    out = []
    tag = f'[m={m},t={t},prss={not no_prss}]'
    bound = f'(m,t)=({m},{t}); values, dealer randomness and PRF outputs symbolic'
    mp.clear_caches()
    log, memo = mp.install_symbolic()

    # ---- input + mul + reshare + output
    t0 = time.time()
    loop, net, rts = mp.make_parties(m, t, no_prss=no_prss)
    deals = []
    thresha = mp.modules()['thresha']
    real_split = thresha.random_split

    def split_logged(field, s, tt, mm):
        deals.append((mp.CUR.get().pid, tt, mm, len(log)))
        return real_split(field, s, tt, mm)
    thresha.random_split = split_logged
    n_in = min(m, 3)

    async def prog(rt):
        secint = _secint(rt)
        x = secint(PolyInt(Poly.var(f'x{rt.pid}')))
        a = rt.input(x)
        if m >= 3: c = a[0] * a[1] + a[2]
        elif m == 2: c = a[0] * a[1] + a[0]
        else: c = a[0] * a[0] + a[0]
        a_sh = await rt.gather(a)
        c_sh = await rt.gather(c)
        o = await rt.output(c, raw=True)
        o2 = await rt.output(a[0], raw=True, receivers=[m - 1])
        return [s.value for s in a_sh], c_sh.value, o.value, (o2.value if o2 is not None else None)
    try:
        res = mp.run_all(loop, rts, prog)
        p = rts[0].SecInt(8).field.modulus
        X = [Poly.var(f'x{i}') for i in range(m)]
        expect = X[0] * X[1] + X[2] if m >= 3 else X[0] * X[1] + X[0] if m == 2 else X[0] * X[0] + X[0]
        bad = None
        for i in range(m):
            d = sharing_defect([r[0][i] for r in res], t, p, X[i])
            if d: bad = f'input of party {i}: {d}'; break
        out.append(_ob('input:SH_t' + tag, 'mpyc.runtime.Runtime._distribute', t0, bound, bad))
        d = sharing_defect([r[1] for r in res], t, p, expect)
        out.append(_ob('mul+_reshare:SH_t' + tag, 'mpyc.runtime.Runtime._reshare', t0, bound, d and f'after multiplication and resharing: {d}'))
        bad = None
        for i, r in enumerate(res):
            if not (PolyInt.of(r[2]).p - expect).is_zero_mod(p): bad = f'party {i} outputs {PolyInt.of(r[2]).p} instead of {expect}'; break
        out.append(_ob('output:value-all-parties' + tag, 'mpyc.runtime.Runtime.output', t0, bound, bad))
        bad = None
        for i, r in enumerate(res):
            if i == m - 1:
                if r[3] is None or not (PolyInt.of(r[3]).p - X[0]).is_zero_mod(p): bad = f'receiver {i} did not obtain x0'
            elif r[3] is not None: bad = f'non-receiver {i} obtained {r[3]}'
        out.append(_ob('output:receivers-subset' + tag, 'mpyc.runtime.Runtime.output', t0, bound, bad))
        lo = net.leftovers()
        bad = None
        if lo['unreceived'] or lo['unmatched_receives'] or net.errors:
            bad = f'network not balanced: {lo} {net.errors}'
        out.append(_ob('network:balanced-unique-labels' + tag, 'mpyc.runtime.Runtime._send_message', t0, bound, bad, evals=len(net.sent)))
        # dealer log (C14)
        bad = None
        for pid, tt, mm, _ in deals:
            if tt != t or mm != m: bad = f'party {pid} deals with threshold {tt}, m {mm} instead of ({t},{m})'; break
        out.append(_ob('dealing:threshold-arguments' + tag, 'mpyc.thresha.random_split(call sites)', t0, bound, bad, evals=max(1, len(deals))))
        # wire payloads masked (C14): every share sent by a dealer during input/_reshare contains a fresh coefficient with unit factor
        if t >= 1:
            bad = None
            nchk = 0
            for src, dst, pc, payload in net.sent:
                if not (isinstance(payload, tuple) and payload[0] == 'BYTES'): continue
                for v in payload[1]:
                    if isinstance(v, PolyInt):
                        nchk += 1
                        lin = [k for k in v.p.d if len(k) == 1 and k[0][0].startswith('c') and k[0][1] == 1]
                        if not lin and not _is_output_share(v):
                            bad = f'message {src}->{dst} carries a value without a fresh random coefficient: {v.p}'
            out.append(_ob('wire:dealt-shares-masked' + tag, 'mpyc.runtime.Runtime._distribute/_reshare', t0, bound, bad, evals=max(1, nchk)))
    except PartyFailure as e:
        out.append(_ob('input/mul/output:terminates' + tag, 'mpyc.runtime.Runtime', t0, bound, str(e)))
    finally:
        thresha.random_split = real_split
        loop.close()

    # ---- _randoms
    for bnd in (None, 1 << 10):
        t0 = time.time()
        mp.clear_caches(); log, memo = mp.install_symbolic()
        loop, net, rts = mp.make_parties(m, t, no_prss=no_prss)

        async def prog2(rt):
            secint = _secint(rt)
            r = rt._randoms(secint.field, 2, bnd)
            if no_prss: r = await r
            return [s.value for s in r]
        try:
            res = mp.run_all(loop, rts, prog2)
            p = rts[0].SecInt(8).field.modulus
            bad = None
            for h in range(2):
                d = sharing_defect([r[h] for r in res], t, p)
                if d: bad = f'_randoms element {h}: {d}'; break
            # range of the shared random value: sum of the symbols' ranges must be <= requested bound
            if bad is None and bnd is not None:
                ranges = [e[1] for e in log if not e[0].startswith('c')]
                per = len(ranges) // 1
                dnum = (t + 1) if no_prss else math.comb(m, t)
                mx = max(ranges) if ranges else 0
                if mx * dnum > bnd: bad = f'_randoms(bound={bnd}): {dnum} summands below {mx} can reach {mx * dnum} > bound'
                if mx * dnum * 4 <= bnd and mx > 0 and dnum <= 2: pass
            lo = net.leftovers()
            if bad is None and (lo['unreceived'] or lo['unmatched_receives'] or net.errors): bad = f'network not balanced: {lo}'
            out.append(_ob(f'_randoms(bound={bnd}):SH_t+range' + tag, 'mpyc.runtime.Runtime._randoms', t0, bound, bad))
        except PartyFailure as e:
            out.append(_ob(f'_randoms(bound={bnd}):terminates' + tag, 'mpyc.runtime.Runtime._randoms', t0, bound, str(e)))
        finally:
            loop.close()
    mp.uninstall_symbolic()
    return out


def _is_output_share(v):
    return False


# ------------------------------------------------------------------ concrete composite runs with ghost checks
class Snap:
    """snapshot of the share values inside x, each taken the moment it is available (callers mutate field elements in place later)"""
    def __init__(self, x):
        import asyncio
        from mpyc import finfields, asyncoro
        self.slots = []
        def rec(o):
            if isinstance(o, asyncio.Future):
                k = len(self.slots); self.slots.append(None)
                def fill(f, k=k):
                    if f.cancelled() or f.exception() is not None: return
                    sub = Snap(f.result())
                    self.slots[k] = sub
                if o.done(): fill(o)
                else: o.add_done_callback(fill)
            elif isinstance(o, asyncoro.SecureObject): rec(o.share)
            elif isinstance(o, finfields.FiniteFieldElement): self.slots.append((type(o), o.value))
            elif isinstance(o, (list, tuple)):
                for e in o: rec(e)
        rec(x)

    def values(self):
        out = []
        for s_ in self.slots:
            if isinstance(s_, Snap): out += s_.values()
            else: out.append(s_)
        return out


class Ghost:
    """records every output / _reshare call of every party (k-th call of each party correspond) for SH checks afterwards"""
    def __init__(self):
        self.calls = {}     # (kind, pid) -> {program-counter key of the call: (x, threshold, result, receivers)}
        M = mp.modules(); R = M['rtmod'].Runtime
        self.R = R
        self.orig = dict(output=R.output, _reshare=R._reshare)
        G = self

        def output(self, x, receivers=None, threshold=None, raw=False):
            y = G.orig['output'](self, x, receivers, threshold, raw)
            G.calls.setdefault(('output', self.pid), {})[tuple(self._program_counter)] = (Snap(x), threshold, None, receivers)
            return y

        def _reshare(self, x):
            y = G.orig['_reshare'](self, x)
            G.calls.setdefault(('_reshare', self.pid), {})[tuple(self._program_counter)] = (Snap(x), None, Snap(y), None)
            return y
        R.output = output; R._reshare = _reshare

    def restore(self):
        self.R.output = self.orig['output']; self.R._reshare = self.orig['_reshare']

    @staticmethod
    def shares_of(x):
        """list of integer share values of x (secure object / field element / list / future), after the run"""
        if isinstance(x, Snap): return x.values()
        import asyncio
        from mpyc import finfields, asyncoro
        out = []
        def rec(o):
            if isinstance(o, asyncio.Future):
                if o.done() and not o.cancelled() and o.exception() is None: rec(o.result())
                else: out.append(None)
            elif isinstance(o, asyncoro.SecureObject): rec(o.share)
            elif isinstance(o, finfields.FiniteFieldElement): out.append((type(o), o.value))
            elif isinstance(o, (list, tuple)):
                for e in o: rec(e)
        rec(x)
        return out

    def check(self, m, t):
        """-> (None | defect text, number of sharings checked)"""
        n = 0
        for kind in ('output', '_reshare'):
            per = [self.calls.get((kind, i), {}) for i in range(m)]
            if any(set(c) != set(per[0]) for c in per):
                return f'parties made different {kind} calls (program counters differ): {[len(c) for c in per]}', n
            for k in per[0]:
                ins = [self.shares_of(per[i][k][0]) for i in range(m)]
                thr = per[0][k][1]
                width = {len(s) for s in ins}
                if len(width) != 1: return f'{kind} call {k}: different numbers of values per party', n
                for h in range(len(ins[0])):
                    col = [ins[i][h] for i in range(m)]
                    if any(c is None for c in col): continue
                    field = col[0][0]
                    if not isinstance(field.modulus, int): continue
                    p = field.modulus
                    d = (t if thr is None else thr) if kind == 'output' else 2 * t
                    d = max(d, t) if kind == 'output' else d
                    df = sharing_defect([c[1] for c in col], min(d, m - 1), p)
                    n += 1
                    if df: return f'{kind} call {k}, value {h}: input shares are not a degree-{d} sharing: {df}', n
                if kind == '_reshare':
                    outs = [self.shares_of(per[i][k][2]) for i in range(m)]
                    for h in range(len(outs[0])):
                        col = [outs[i][h] for i in range(m)]
                        if any(c is None for c in col): continue
                        field = col[0][0]
                        if not isinstance(field.modulus, int): continue
                        p = field.modulus
                        # secret before (degree 2t) == secret after (degree t)
                        xin = [ins[i][h][1] for i in range(m)]
                        sec = _interp0(xin[:2 * t + 1], p)
                        df = sharing_defect([c[1] for c in col], t, p, sec)
                        n += 1
                        if df: return f'_reshare call {k}, value {h}: result {df}', n
        return None, n


def _interp0(shares, p):
    xs = list(range(1, len(shares) + 1))
    lam = mp.lagrange_at(xs, 0, p)
    return sum(l * s for l, s in zip(lam, shares)) % p


def _programs():
    """name -> (coroutine program on concrete values, expected result function, description of functions covered)"""
    def P_int_ops(l):
        async def prog(rt, seed):
            rnd = pyrandom.Random(seed)
            secint = rt.SecInt(l)
            lo, hi = -(1 << (l - 1)), 1 << (l - 1)
            a = rnd.choice([lo, hi - 1, 0, -1, 1] + [rnd.randrange(lo, hi) for _ in range(5)])
            b = rnd.choice([lo, hi - 1, 0, -1, 1] + [rnd.randrange(lo, hi) for _ in range(5)])
            fit = lambda v: lo <= v < hi
            x, y = secint(a), secint(b)
            ops = []
            exp = []
            def add(e, v): ops.append(e); exp.append(v)
            add(x + y, a + b); add(x - y, a - b); add(x * y, a * b); add(-x, -a)
            if fit(a - b) and fit(b - a):
                add(x < y, int(a < b)); add(x <= y, int(a <= b)); add(x == y, int(a == b)); add(x >= y, int(a >= b)); add(x > y, int(a > b)); add(x != y, int(a != b))
                add(rt.min(x, y), min(a, b)); add(rt.max(x, y), max(a, b))
            add(rt.sgn(x), (a > 0) - (a < 0)); add(rt.sgn(x, LT=True), int(a < 0)); add(rt.sgn(x, EQ=True), int(a == 0))
            if a > lo: add(abs(x), abs(a))
            add(rt.lsb(x), a % 2); add(x % 2, a % 2)
            for d in (3, 4, 7):
                if d < hi: add(x % d, a % d); add(x // d, a // d)
            add(rt.if_else(secint(1), x, y), a); add(rt.if_else(secint(0), x, y), b)
            u, w = rt.if_swap(secint(1), x, y); add(u, b); add(w, a)
            add(rt.sum([x, y, x]), 2 * a + b); add(rt.in_prod([x, y], [y, x]), 2 * a * b); add(rt.prod([x, y, secint(2)]), 2 * a * b)
            add(rt.all([secint(1), secint(a % 2)]), a % 2); add(rt.any([secint(0), secint(a % 2)]), a % 2)
            add(x ** 3, a ** 3); add(rt.is_zero(x), int(a == 0))
            M_ = rt.matrix_prod([[x, y]], [[y], [x]]); add(M_[0][0], 2 * a * b)
            outs = await rt.output(ops, raw=True)
            izp = await rt.is_zero_public(x)
            eqp = await rt.eq_public(x, y)
            p = secint.field.modulus
            got = [o.value for o in outs] + [int(izp), int(eqp)]
            want = [e % p for e in exp] + [int(a == 0), int(a == b)]
            sh = await rt.gather(ops)
            return got, want, [s.value for s in sh], p, (a, b)
        return prog
    from sx import mpprogs, mpprogs_grp
    return dict(int_ops=P_int_ops, **mpprogs.PROGRAMS, **mpprogs_grp.PROGRAMS)


def concrete_program(m, t, no_prss, prog_name, l, k, seeds):
    """run one composite program for all parties with ghost checks -> [Ob]"""
    out = []
    tag = f'[m={m},t={t},prss={not no_prss},l={l},k={k}]'
    bound = f'(m,t)=({m},{t}), l={l}, k={k}; {len(seeds)} seeded runs (inputs incl. range extremes, real randomness)'
    prog_f = _programs()[prog_name](l)
    t0 = time.time()
    bad = None; nsh = 0; nmsg = 0
    mp.uninstall_symbolic()
    for seed in seeds:
        mp.clear_caches()
        mp.install_seeded(seed)
        G = Ghost()
        loop, net, rts = mp.make_parties(m, t, no_prss=no_prss, k=k)
        try:
            res = mp.run_all(loop, rts, lambda rt: prog_f(rt, seed))
            got0, want, _, p, inputs = res[0]
            for i, (got, _, _, _, _) in enumerate(res):
                if got != want:
                    j = [x != y for x, y in zip(got, want)].index(True) if len(got) == len(want) else -1
                    bad = f'party {i} result #{j} is {got[j] if j >= 0 else got} instead of {want[j] if j >= 0 else want} for inputs {inputs} (seed {seed})'; break
            if bad is None:
                nres = len(res[0][2])
                for h in range(nres):
                    if p is None:       # generalised form: shares are (modulus, share value, expected secret or None)
                        ph, _, exp_h = res[0][2][h]
                        if not isinstance(ph, int): continue
                        d = sharing_defect([r[2][h][1] for r in res], t, ph, exp_h)
                    else:
                        d = sharing_defect([r[2][h] for r in res], t, p, want[h])
                    nsh += 1
                    if d: bad = f'result #{h}: {d} (inputs {inputs}, seed {seed})'; break
            if bad is None:
                bad, n = G.check(m, t); nsh += n
                if bad: bad += f' (inputs {inputs}, seed {seed})'
            lo = net.leftovers(); nmsg += len(net.sent)
            if bad is None and (lo['unreceived'] or lo['unmatched_receives'] or net.errors):
                bad = f'network not balanced after the run: {str(lo)[:300]} {net.errors[:2]}'
        except PartyFailure as e:
            bad = f'{e} (seed {seed})'
        finally:
            G.restore(); loop.close()
        if bad: break
    code = None
    if bad:
        code = (f"import sys; sys.argv=['replay','--no-log']; sys.path.insert(0, {__import__('lib.common').common.ROOT!r})\n"
                f"from sx.mpinst import concrete_program\n"
                f"obs = concrete_program({m}, {t}, {no_prss}, {prog_name!r}, {l}, {k}, {list(seeds)!r})\n"
                f"print(obs[0].detail)\nsys.exit(1 if obs[0].status == 'refuted' else 0)\n")
    o = _ob(f'{prog_name}:values+SH_t+network' + tag, 'mpyc.runtime.Runtime(composite protocols)', t0, bound, bad,
            evals=max(1, nsh), key=f'mp:{prog_name}', replay=code)
    o.engine = 'symx-mp-concrete'
    o.backend = 'cpython'
    o.detail = (o.detail or '') + f' sharings checked={nsh} messages={nmsg}'
    return [o]
