"""C29: the comparator network of the REAL Runtime._sort, decided by the 0-1 principle.

The real _sort runs on tokens carrying z3 Booleans; `<` and if_swap are replaced by their contracts on {0,1}-values
(a < b  <=>  not a and b;  if_swap(c, x, y) = (y, x) if c else (x, y)).  The control flow of _sort may not depend on the data (any attempt to
branch on a token raises).  By the 0-1 principle (a comparator network that sorts all 0-1 inputs sorts all inputs) one SAT query per n decides
sortedness for every input order; the output is a permutation because the if_swap contract only exchanges."""
import sys, time
import z3
from lib.common import Ob, B, ROOT


class Tok:
    __slots__ = ('b', 'used')
    live = []
    def __init__(self, b): self.b = b; self.used = False; Tok.live.append(self)
    def __lt__(self, o): return Cond(z3.And(z3.Not(self.b), o.b))
    def __bool__(self): raise RuntimeError('_sort branches on a secret value')


class Cond:
    __slots__ = ('c',)
    def __init__(self, c): self.c = c
    def __bool__(self): raise RuntimeError('_sort branches on a comparison result')


class _RT:
    calls = 0
    def if_swap(self, c, x, y):
        _RT.calls += 1
        if not isinstance(c, Cond): raise RuntimeError('if_swap condition is not a comparison result')
        if x.used or y.used or x is y: raise RuntimeError('a value is fed to two comparators (not a comparator network: the multiset may change)')
        x.used = y.used = True
        return [Tok(z3.If(c.c, y.b, x.b)), Tok(z3.If(c.c, x.b, y.b))]


def sort_01(n):
    sys.argv = [sys.argv[0] if sys.argv else 'x', '--no-log']
    from mpyc.runtime import Runtime
    t0 = time.time()
    bs = [z3.Bool(f'b{i}') for i in range(n)]
    Tok.live = []
    x = [Tok(b) for b in bs]
    _RT.calls = 0
    o = Ob(f'_sort:0-1-principle[n={n}]', 'mpyc.runtime.Runtime._sort', 'symx-01', B, 'discharged', 'z3-5.1', bound=f'n={n}; all 2^{n} 0-1 inputs by one SAT query')
    try:
        r = Runtime._sort(_RT(), x, lambda a: a)
        out = x
        if len(out) != n: raise RuntimeError('length changed')
        s = z3.Solver(); s.set('timeout', 120000)
        s.add(z3.Or(*[z3.And(out[k].b, z3.Not(out[k + 1].b)) for k in range(n - 1)]) if n > 1 else z3.BoolVal(False))
        # permutation: linear use of values -- every comparator output is consumed by at most one later comparator, and the final list holds
        # exactly the unconsumed values, each once (so the multiset of values is preserved by the exchange contract of if_swap)
        unused = [t for t in Tok.live if not t.used]
        if len(unused) != n or {id(t) for t in unused} != {id(t) for t in out} or len({id(t) for t in out}) != n:
            raise RuntimeError('the final list is not exactly the set of comparator outputs (a value was dropped or duplicated)')
        res = s.check()
        res2 = z3.unsat
        if res == z3.sat or res2 == z3.sat:
            m = (s if res == z3.sat else s2).model()
            inp = [1 if z3.is_true(m.eval(b, model_completion=True)) else 0 for b in bs]
            outp = [1 if z3.is_true(m.eval(t.b, model_completion=True)) else 0 for t in out]
            o.status = 'refuted'
            code = (f"import sys; sys.argv=['replay','--no-log']\nfrom mpyc.runtime import mpc\nsecint = mpc.SecInt(8)\nx = {inp!r}\n"
                    f"y = mpc.run(mpc.output(mpc.sorted([secint(a) for a in x])))\nprint('sorted(', x, ') =', y)\nsys.exit(1 if y != sorted(x) else 0)\n")
            o.witness = dict(key='mpyc.runtime.Runtime._sort:0-1', text=f'0-1 input {inp} is output as {outp} by the comparator network of _sort (n={n})', replay=code)
            o.detail = o.witness['text']
        elif res != z3.unsat or res2 != z3.unsat:
            o.status = 'unknown'; o.detail = 'SAT query undecided'
        o.evals = max(1, _RT.calls)
        o.detail = (o.detail or '') + f' comparators={_RT.calls}'
    except RuntimeError as e:
        o.status = 'refuted'; o.detail = str(e)
        o.witness = dict(key='mpyc.runtime.Runtime._sort:data-dependent', text=str(e), replay=None)
    o.time = time.time() - t0
    return [o]


def sort_01_many(ns):
    out = []
    for n in ns: out += sort_01(n)
    return out
