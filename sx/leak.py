"""Leak ghost (C18): a declassification precondition on every `output` made INSIDE a protocol function.

The instance wrapper runs an existing value-mode instance (real protocol code on symbolic secrets and symbolic randomness) and then
inspects the normal form N (value = N / D mod P) of every value that was handed to `output` by protocol code (the driver's own final
opening of the results is excluded: those are the outputs of the ideal functionality).  N must match one of the patterns

 (add)  N = c0 + sum a_i s_i + sum b_j r_j   linear, s_i secret inputs, r_j randomness symbols, where the r_j with b_j != 0 form a mixed-radix
        chain  b_1 = g, b_(j+1) = b_j * |range r_j|  (so the mask M = sum b_j r_j is g times a uniform value on [0, R), R = prod |range r_j|),
        g divides every a_i, and  R * slack >= 2^k * X  with X = 1 + sum |a_i / g| (|range s_i| - 1)  the number of values of the secret part;
 (mul)  N is a product with a factor that is a bare randomness symbol ranging over the whole field (multiplicative blinding), possibly plus
        zero-sharing randomness;
 (pub)  N contains no secret symbol at all (a public or purely random value);
 (dec)  N is one of the declared *outputs* of the function under contract (a comparison bit that the function is specified to reveal):
        listed per instance in `declared`.
and no randomness symbol may mask two different openings.  Pattern (add) => statistical distance <= X / R <= slack * 2^-k is the standard
smudging lemma (assumption, not proved here).  Anything else is reported as a violation of the declassification precondition.
"""
import z3
from sx.sym import C, SymInt, GhostViolation, Pruned

RANDOM_PREFIXES = ('bit_', 'prf_', 'rb_', 'rbits_')


def is_random(name):
    return name.startswith(RANDOM_PREFIXES)


class NonLinear(Exception):
    pass


def linear_form(t):
    """z3 Int term -> (const, {symbol name: coeff}); raises NonLinear"""
    t = z3.simplify(t) if not z3.is_int_value(t) else t
    return _lin(t)


def _lin(t):
    if z3.is_int_value(t):
        return t.as_long(), {}
    if z3.is_const(t) and t.decl().kind() == z3.Z3_OP_UNINTERPRETED:
        return 0, {t.decl().name(): 1}
    k = t.decl().kind()
    if k == z3.Z3_OP_ITE:
        c, a, b = t.children()
        if z3.is_const(c) and c.decl().kind() == z3.Z3_OP_UNINTERPRETED and z3.is_int_value(a) and z3.is_int_value(b):
            # If(bit, a, b) = b + (a - b) * bit
            return b.as_long(), {c.decl().name(): a.as_long() - b.as_long()}
        raise NonLinear(str(t)[:80])
    if k == z3.Z3_OP_ADD:
        c0, m = 0, {}
        for ch in t.children():
            c1, m1 = _lin(ch); c0 += c1
            for n, v in m1.items(): m[n] = m.get(n, 0) + v
        return c0, {n: v for n, v in m.items() if v}
    if k == z3.Z3_OP_SUB:
        ch = t.children()
        c0, m = _lin(ch[0]); m = dict(m)
        for x in ch[1:]:
            c1, m1 = _lin(x); c0 -= c1
            for n, v in m1.items(): m[n] = m.get(n, 0) - v
        return c0, {n: v for n, v in m.items() if v}
    if k == z3.Z3_OP_UMINUS:
        c1, m1 = _lin(t.children()[0])
        return -c1, {n: -v for n, v in m1.items()}
    if k == z3.Z3_OP_MUL:
        parts = [_lin(ch) for ch in t.children()]
        nonconst = [p for p in parts if p[1]]
        if len(nonconst) > 1: raise NonLinear(str(t)[:80])
        f = 1
        for c1, m1 in parts:
            if not m1: f *= c1
        if not nonconst: return f, {}
        c1, m1 = nonconst[0]
        return c1 * f, {n: v * f for n, v in m1.items() if v * f}
    raise NonLinear(str(t)[:80])


def _symbols_in(t, acc=None):
    acc = set() if acc is None else acc
    if z3.is_const(t) and t.decl().kind() == z3.Z3_OP_UNINTERPRETED:
        acc.add(t.decl().name())
    for ch in t.children(): _symbols_in(ch, acc)
    return acc


def _iv(t, ranges):
    """interval of a z3 Int term over the symbol ranges (over-approximation)"""
    if z3.is_int_value(t):
        v = t.as_long(); return v, v
    k = t.decl().kind()
    if z3.is_const(t) and k == z3.Z3_OP_UNINTERPRETED:
        n = t.decl().name()
        if n in ranges: lo, hi = ranges[n]; return lo, hi - 1
        raise NonLinear(f'unknown symbol {n}')
    ch = t.children()
    if k == z3.Z3_OP_ADD:
        ivs = [_iv(c, ranges) for c in ch]; return sum(i[0] for i in ivs), sum(i[1] for i in ivs)
    if k == z3.Z3_OP_SUB:
        lo, hi = _iv(ch[0], ranges)
        for c in ch[1:]:
            l2, h2 = _iv(c, ranges); lo, hi = lo - h2, hi - l2
        return lo, hi
    if k == z3.Z3_OP_UMINUS:
        lo, hi = _iv(ch[0], ranges); return -hi, -lo
    if k == z3.Z3_OP_MUL:
        lo, hi = 1, 1
        for c in ch:
            l2, h2 = _iv(c, ranges); c4 = (lo * l2, lo * h2, hi * l2, hi * h2); lo, hi = min(c4), max(c4)
        return lo, hi
    if k == z3.Z3_OP_ITE:
        if z3.is_bool(ch[0]):
            l1, h1 = _iv(ch[1], ranges); l2, h2 = _iv(ch[2], ranges); return min(l1, l2), max(h1, h2)
    if k == z3.Z3_OP_MOD and z3.is_int_value(ch[1]) and ch[1].as_long() > 0:
        return 0, ch[1].as_long() - 1
    if k in (z3.Z3_OP_IDIV, z3.Z3_OP_DIV) and z3.is_int_value(ch[1]) and ch[1].as_long() > 0:
        lo, hi = _iv(ch[0], ranges); d = ch[1].as_long(); return lo // d, hi // d
    raise NonLinear(f'no interval rule for {str(t)[:60]}')


def _top_terms(t):
    """flatten a sum into signed top-level terms [(sign, term)]"""
    k = t.decl().kind()
    if k == z3.Z3_OP_ADD:
        out = []
        for c in t.children(): out += _top_terms(c)
        return out
    if k == z3.Z3_OP_SUB:
        ch = t.children(); out = _top_terms(ch[0])
        for c in ch[1:]: out += [(-s, x) for s, x in _top_terms(c)]
        return out
    if k == z3.Z3_OP_UMINUS:
        return [(-s, x) for s, x in _top_terms(t.children()[0])]
    return [(1, t)]


def _bare_random(t):
    """term == c * r (r a randomness symbol, also If(bit, a, b) with b == 0) -> (name, c) or None"""
    try:
        c0, m = _lin(t)
    except NonLinear:
        return None
    if c0 == 0 and len(m) == 1:
        (n, c), = m.items()
        if is_random(n): return n, c
    return None


def _sym_term(n):
    return z3.If(z3.Bool(n), 1, 0) if n.startswith('bit_') else z3.Int(n)


def _solver_range(term, lo, hi):
    """tightest [lo', hi'] of term under the current path condition (binary search; unknown counts as feasible)"""
    def feas(c): return C.solver.check(c) != z3.unsat
    a, b = lo, hi              # max: largest m with feas(term >= m)
    if not feas(term >= a): return lo, hi
    while a < b:
        m = (a + b + 1) // 2
        if feas(term >= m): a = m
        else: b = m - 1
    mx = a
    a, b = lo, mx              # min: smallest m with feas(term <= m)
    while a < b:
        m = (a + b) // 2
        if feas(term <= m): b = m
        else: a = m + 1
    return a, mx


def check_opening(v, ranges, k, slack, p):
    """-> (pattern, detail, random symbols used as mask) or raises GhostViolation"""
    if not isinstance(v, SymInt):
        return 'pub', 'concrete value', set()
    z = z3.simplify(v.z, som=True) if not z3.is_int_value(v.z) else v.z
    names = _symbols_in(z)
    secret = {n for n in names if not is_random(n) and '!' not in n}
    if not secret:
        return 'pub', 'no secret symbol', set()
    # value = N / D mod P: multiplication by D^-1 is a bijection of the field, so the opened value hides exactly what N mod P hides; the
    # pattern is decided on N (a mask coefficient then carries the factor D, and D must divide the rest: checked below through g)
    # multiplicative blinding: a factor that is a bare randomness symbol over the whole field
    for fct in (v.factors or []):
        if isinstance(fct, SymInt) and z3.is_const(fct.z) and fct.z.decl().kind() == z3.Z3_OP_UNINTERPRETED:
            n = fct.z.decl().name()
            if is_random(n) and ranges.get(n, (0, 0))[1] - ranges.get(n, (0, 0))[0] >= p - 1:
                return 'mul', f'product with the uniform field element {n}', {n}
    # additive: N = REST + sum b_j r_j, where the r_j occur nowhere in REST (fresh mask), REST = everything else (secrets, constants, earlier randomness)
    terms = _top_terms(z)
    cand = {}
    rest = []
    for sgn, t in terms:
        br = _bare_random(t)
        if br is not None: cand[br[0]] = cand.get(br[0], 0) + sgn * br[1]
        else: rest.append((sgn, t))
    rest_syms = set()
    for _, t in rest: _symbols_in(t, rest_syms)
    const = 0
    mask = {n: b for n, b in cand.items() if b and n not in rest_syms}
    for n, b in cand.items():
        if n in rest_syms: rest.append((1, z3.IntVal(b) * z3.Int(n) if not n.startswith('bit_') else z3.IntVal(b) * z3.If(z3.Bool(n), 1, 0)))
    if not mask:
        raise GhostViolation('leak:unmasked', f'opened value depends on the secrets {sorted(secret)} and contains no fresh additive randomness: {str(z)[:120]}')
    rnd = sorted(((abs(b), n, b) for n, b in mask.items()), key=lambda t: t[0])
    # signs do not matter: -b*r with r uniform on [0, n) is b*(n-1-r) - b*(n-1), a uniform value again (shifted)
    g = rnd[0][0]; R = 1; expect = g; used = set(); low = []
    for ab, n, b in rnd:
        if ab != expect:
            # a low part built by rejection sampling (_randbelow: bits conditioned on "not rejected"): under the path condition the low part
            # ranges exactly over [0, ab/g) -- then the chain continues (its uniformity is the contract of _randbelow / random_bits, C33)
            if not low or ab % g: break
            Lz = z3.Sum([z3.IntVal(bb // g) * _sym_term(nn) for _, nn, bb in low])
            bnd = sum(abs(bb // g) * (ranges[nn][1] - 1) for _, nn, bb in low)
            mn, mx = _solver_range(Lz, -bnd, bnd)
            if mx - mn + 1 != ab // g: break
            R = ab // g
        lo_, hi_ = ranges[n]; R *= (hi_ - lo_); expect = ab * (hi_ - lo_); used.add(n); low.append((ab, n, b))
    rest_z = z3.Sum([t if sg > 0 else -t for sg, t in rest]) if rest else z3.IntVal(0)
    if p:
        rz = rest_z % p
        rest_c = z3.If(rz > p // 2, rz - p, rz)
    else:
        rest_c = rest_z
    if g != 1 and not C.valid(rest_c % g == 0):
        raise GhostViolation('leak:low-bits', f'mask is a multiple of {g} but the rest of the opened value is not: its residue modulo {g} is opened')
    # number of values of the rest: interval arithmetic first, the solver (under the path condition, which carries the preconditions) if that is not enough
    try:
        lo = hi = 0
        for sg, t in rest:
            l2, h2 = _iv(t, ranges)
            lo, hi = (lo + l2, hi + h2) if sg > 0 else (lo - h2, hi - l2)
        if p and (lo < -(p // 2) or hi > p // 2): raise NonLinear('wraps')
    except NonLinear:
        lo, hi = (-(p // 2), p // 2) if p else (None, None)
        if lo is None: raise GhostViolation('leak:unmasked', 'no bound for the secret part of the opened value')
    X = (hi - lo) // g + 1
    if R * slack < (1 << k) * X:
        lo, hi = _solver_range(rest_c, lo, hi)
        X = (hi - lo) // g + 1
    if R * slack < (1 << k) * X:
        raise GhostViolation('leak:mask-too-short', f'secret part takes up to {X} values (range [{lo}, {hi}] step {g}), the uniform mask {sorted(used)} only {R} (x slack {slack}) '
                             f'< 2^k * {X} = {(1 << k) * X} (k = {k}): statistical distance above 2^-k')
    return 'add', f'secret part of <= {X} values masked by a uniform value on [0, {R}) x {g}', used


def wrap(H, base_module, base_name, params, declared=()):
    """instance wrapper: (build, check) of the base instance -> (build', check') deciding the declassification precondition"""
    import importlib
    base = importlib.import_module(base_module).INSTANCES[base_name]
    build0, check0 = base(H, **params)
    k = H.k

    def build():
        C.openlog = []
        C.final_open = False
        try:
            out, info = build0()
        finally:
            log = C.openlog; C.openlog = None
        ranges = {n: (lo, hi) for n, lo, hi in C.symbols}
        used_by = {}
        report = []
        for idx, e in enumerate(log):
            if e['final']: continue
            from sx.value import walk_syms
            for v in walk_syms(e['x']):
                p = v.P or 0
                if e['who'] in declared:
                    report.append((e['who'], 'dec', 'declared output of the function')); continue
                pat, detail, used = check_opening(v, ranges, k, H.slack if hasattr(H, 'slack') else 2, p)
                for n in used:
                    if n in used_by and used_by[n] != idx:
                        raise GhostViolation('leak:mask-reused', f'randomness {n} masks two different openings (in {log[used_by[n]]["who"]} and in {e["who"]})')
                    used_by[n] = idx
                report.append((e['who'], pat, detail))
        return report, None

    def check(report, _):
        return [(f'declassification[{i}]:{who}:{pat}', z3.BoolVal(True)) for i, (who, pat, detail) in enumerate(report)] or [('no-internal-opening', z3.BoolVal(True))]
    return build, check


def inst_leak(H, base_module, base_name, base_params, declared=()):
    return wrap(H, base_module, base_name, dict(base_params), tuple(declared))


INSTANCES = {'leak': inst_leak}


# ================================================================= (E) exact view distributions for tiny parameters
class _PrefixPins:
    """pins object for Ctx.fresh: the i-th symbol created takes prefix[i], later ones their lower bound"""
    def __init__(self, prefix, limit=10 ** 9): self.prefix, self.limit = prefix, limit
    def get(self, name, default):
        i = int(name.rsplit('_', 1)[1]) - 1
        if i >= self.limit:
            from sx.sym import Pruned
            raise Pruned()          # a rejection loop that never ends on default values: the execution is cut (its mass is reported as truncated)
        return self.prefix[i] if i < len(self.prefix) else default


def _plain(x):
    from mpyc import finfields, asyncoro
    if isinstance(x, bool): return x
    if isinstance(x, int): return int(x)
    if isinstance(x, finfields.FiniteFieldElement): return int(x.value)
    if isinstance(x, asyncoro.SecureObject): return _plain(x.share)
    if isinstance(x, (list, tuple)): return tuple(_plain(a) for a in x)
    if hasattr(x, 'done') and x.done(): return _plain(x.result())
    return repr(x)


def run_view_enum(module, name, params, hcfg, func, bound, n_additive=None, max_leaves=400000, max_syms=40, err_limit=None, ideal=None):
    """Exhaustive: every assignment of the secret inputs and of ALL randomness symbols (depth-first over the tree of executions, so
    data-dependent randomness is handled) through the real code; per secret input the exact distribution of the view
    (every value opened inside the protocol + every public zero-test bit).  For all pairs of secret inputs with the same output the
    statistical distance of the views must be <= n_additive * slack * 2^-k (n_additive = number of additively masked openings, as
    decided by the pattern check on the same instance; 0 if there is none: then the views must be identically distributed)."""
    import importlib, time
    from fractions import Fraction
    from lib.common import Ob, B
    from sx.value import Harness
    t0 = time.time()
    H = Harness(**hcfg); H.install()
    build, check = importlib.import_module(module).INSTANCES[name](H, **dict(params))
    k = H.k
    tag = ','.join(f'{a}={v}' for a, v in sorted(params.items())) + f';k={hcfg.get("k")},prss={not hcfg.get("no_prss", False)}'
    o = Ob(f'views:{name}[{tag}]', func, 'symx-enum', B, 'discharged', 'cpython', 0.0, bound=bound)
    dist = {}            # secret tuple -> {(view, output): prob}
    todo = [[]]; leaves = 0; truncated = {}; nadd_seen = 0
    while todo:
        prefix = todo.pop()
        C.reset([]); C.pins = _PrefixPins(prefix, max_syms + 1); H.prepare(); C.openlog = []; C.final_open = False
        try:
            out, info = build()
            log = C.openlog
            syms = list(C.symbols)
            err = None
        except Pruned:
            syms = list(C.symbols); log = []; out = None; err = None
        except Exception as e:       # noqa
            syms = list(C.symbols); log = C.openlog; out = None; err = f'{type(e).__name__}: {e}'
        finally:
            C.pins = None; C.openlog = None
        vals = [prefix[i] if i < len(prefix) else syms[i][1] for i in range(len(syms))]
        for j in range(len(prefix), min(len(syms), max_syms)):      # executions drawing more than max_syms symbols (long rejection runs) are not expanded:
            nm, lo, hi = syms[j]                                      # their probability mass is reported as truncated
            for v in range(lo + 1, hi):
                todo.append(vals[:j] + [v])
        leaves += 1
        w = Fraction(1)
        sec = []
        for (nm, lo, hi), v in zip(syms, vals):
            if is_random(nm): w /= (hi - lo)
            else: sec.append((nm, v))
        sec = tuple(sec)
        if err is not None:
            o.status = 'refuted'; o.detail = f'real code raised {err} for {dict(zip([s[0] for s in syms], vals))}'
            o.witness = dict(key=f'{func}:views:{name}:raises', text=o.detail, replay=None)
            break
        if len(syms) > max_syms:
            for (nm, lo, hi) in syms[max_syms:]:
                if is_random(nm): w *= (hi - lo)          # this execution stands for all continuations beyond max_syms
            truncated[sec] = truncated.get(sec, 0) + w; continue
        view = tuple((e['who'], _plain(e['x'])) for e in log if not e['final'])
        outp = tuple(_plain(e['x']) for e in log if e['final'])
        d = dist.setdefault(sec, {})
        d[(view, outp)] = d.get((view, outp), 0) + w
        if leaves > max_leaves:
            o.status = 'error'; o.detail = f'more than {max_leaves} executions'; break
    o.evals = leaves; o.time = time.time() - t0
    if o.status != 'discharged': return [o]
    # outputs must be a function of the secrets, up to the error probability the protocol documents (a zero blinding factor): the most likely
    # output counts as THE output, the mass of the other executions must stay below err_limit (default 2^-k)
    by_out = {}
    err_limit = Fraction(1, 1 << k) if err_limit is None else Fraction(err_limit)
    ideal_f = getattr(importlib.import_module(module), ideal) if ideal else None
    for sec, d in dist.items():
        if ideal_f is not None:
            # probabilistic protocols (error probability 2^-k by design): inputs are grouped by the IDEAL output, the computed one is not used
            by_out.setdefault(ideal_f(dict(sec)), []).append(sec); continue
        mass = {}
        for (v, ov), pr in d.items(): mass[ov] = mass.get(ov, 0) + pr
        best = max(mass, key=lambda ov: mass[ov])
        wrong = sum(pr for ov, pr in mass.items() if ov != best)
        if wrong > err_limit:
            o.status = 'error'; o.detail = f'output depends on the randomness for {sec} with probability {float(wrong):.4f} > {float(err_limit):.4f}: instance not suited for the view check'; return [o]
        by_out.setdefault(best, []).append(sec)
    nadd = n_additive if n_additive is not None else 1
    limit = Fraction(2 * nadd, 1 << k)
    worst = (Fraction(0), None)
    for outv, secs in by_out.items():
        for i in range(len(secs)):
            for j in range(i + 1, len(secs)):
                d1 = {v: p for (v, _), p in dist[secs[i]].items()}; d2 = {v: p for (v, _), p in dist[secs[j]].items()}
                sd = sum(abs(d1.get(v, 0) - d2.get(v, 0)) for v in set(d1) | set(d2)) / 2
                if sd > worst[0]: worst = (sd, (secs[i], secs[j], outv))
    o.detail = (f'{leaves} executions, {len(dist)} secret inputs, {len(by_out)} distinct outputs; largest statistical distance between the views of two inputs '
                f'with the same output: {float(worst[0]):.4f} (limit {float(limit):.4f} = {nadd} additive opening(s) x 2 x 2^-{k}); truncated mass per input <= {float(max(truncated.values(), default=0)):.4f}')
    tr = max(truncated.values(), default=Fraction(0))
    limit += 2 * tr + 2 * err_limit * (1 if (ideal_f is None and any(len({vo[1] for vo in d}) > 1 for d in dist.values())) else 0)
    if worst[0] > limit:
        s1, s2, outv = worst[1]
        o.status = 'refuted'
        o.detail = f'inputs {dict(s1)} and {dict(s2)} give the same output {outv} but the views of the parties differ with statistical distance {float(worst[0]):.4f} > {float(limit):.4f}; ' + o.detail
        code = (f"import sys; sys.argv=['replay','--no-log']; sys.path.insert(0, {__import__('lib.common').common.ROOT!r})\n"
                f"from sx.leak import run_view_enum\n"
                f"o = run_view_enum({module!r}, {name!r}, {dict(params)!r}, {dict(hcfg)!r}, {func!r}, {bound!r}, {n_additive!r}, {max_leaves!r}, {max_syms!r}, {(float(err_limit) if err_limit is not None else None)!r}, {ideal!r})[0]\n"
                f"print(o.status, o.detail)\nsys.exit(1 if o.status == 'refuted' else 0)\n")
        o.witness = dict(key=f'{func}:views:{name}:distance', text=o.detail, replay=code)
    return [o]


def inst_izp(H, kind, l=3, p=11, which='is_zero_public'):
    """the REAL is_zero_public / reciprocal (stubs off) on one secret; kind 'int' (SecInt(l)) or 'fld' (SecFld(p)): which branch of the
    field-size case distinction runs depends on (field bits) // k"""
    mpc = H.rt
    st = mpc.SecInt(l) if kind == 'int' else mpc.SecFld(p)
    H.register_field(st.field)
    lo, hi = (-(1 << (l - 1)), 1 << (l - 1)) if kind == 'int' else (0, p)

    def build():
        x, a = H.secret(st, 'a', lo, hi)
        if which == 'is_zero_public':
            r = bool(mpc.run(mpc.is_zero_public(x)))
            if getattr(C, 'openlog', None) is not None:
                C.openlog.append(dict(x=r, final=True, who='result', threshold=None))
            return r, a
        y = mpc.reciprocal(x)
        return H.open(y), a

    def check(o, a):
        return []
    return build, check


INSTANCES['izp'] = inst_izp


def inst_is_zero_nishide(H, l=2, p=43):
    """the probabilistic zero test Runtime._is_zero (used by is_zero for bit_length > 2k, k >= 8, Blum prime) called directly on a tiny Blum-prime field"""
    mpc = H.rt
    st = mpc.SecInt(l, p)
    H.register_field(st.field)

    def build():
        x, a = H.secret(st, 'a', -(1 << (l - 1)), 1 << (l - 1))
        return H.open(mpc._is_zero(x)), a

    def check(o, a):
        return []
    return build, check


INSTANCES['is_zero_nishide'] = inst_is_zero_nishide


def ideal_is_zero(sec):
    return int(all(v == 0 for v in sec.values()))
