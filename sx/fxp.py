"""Value-mode instances for secure fixed-point numbers: rounding bounds (C02), integrality flags (C03), conversions (C06)."""
import z3, itertools
from fractions import Fraction
from sx.sym import C, SymInt, zt, field_eq_formula, GhostViolation
from sx.value import signed_formula, max_deg
from sx.protocols import rng, install_l5_stubs, _truth


def _flagged(H, stype, name, lo, hi, flag):
    """symbolic secure fixed-point number (scaled integer in [lo,hi)) carrying integrality flag `flag`; INT invariant assumed"""
    f = stype.frac_length
    if flag is True:
        # whole number: v = w * 2^f with w a fresh symbol (keeps the terms linear in w)
        w = C.fresh(name + 'w', -((-lo) >> f), ((hi - 1) >> f) + 1, deg=H.tv)
        v = w << f
        H.register_field(stype.field)
        return stype(stype.field(v), integral=True), v
    x, v = H.secret(stype, name, lo, hi, integral=flag)
    return x, v


def _int_goals(tag, r, val_term, f):
    """C03: a result marked integral is a whole number"""
    flag = getattr(r, 'integral', None)
    if flag is True:
        return [(f'{tag}:integral-flag-true-implies-whole', val_term % (1 << f) == 0)]
    return []


def _unary_binary_ops(mpc, f):
    one = 1 << f
    If = z3.If
    fl = lambda t: t / one               # floor division by 2^f (z3 div with positive constant)
    within1 = lambda vz, exact_num: z3.Or(vz == fl(exact_num), vz == fl(exact_num) + 1) if True else None
    T = {
        # name: (arity, secure expr, goal(vz, *v) , precondition(l, *v) or None)
        'add': (2, lambda x, y: x + y, lambda vz, a, b: vz == a + b, None),
        'sub': (2, lambda x, y: x - y, lambda vz, a, b: vz == a - b, None),
        'neg': (1, lambda x: -x, lambda vz, a: vz == -a, None),
        'addc': (1, lambda x: x + 3, lambda vz, a: vz == a + 3 * one, None),
        'addf': (1, lambda x: x + 0.5, lambda vz, a: vz == a + one // 2, None),
        'mul': (2, lambda x, y: x * y, lambda vz, a, b: z3.And(z3.Or(vz == fl(a * b), vz == fl(a * b) + 1), z3.Implies((a * b) % one == 0, vz == fl(a * b))),
                lambda l, a, b: z3.And(a * b >= -(1 << (l + f - 1)), a * b < (1 << (l + f - 1)) - one)),
        'mulc': (1, lambda x: x * 3, lambda vz, a: vz == 3 * a, None),
        'rmulc': (1, lambda x: -2 * x, lambda vz, a: vz == -2 * a, None),
        'sq': (1, lambda x: x * x, lambda vz, a: z3.Or(vz == fl(a * a), vz == fl(a * a) + 1),
               lambda l, a: a * a < (1 << (l + f - 1)) - one),
        'lt': (2, lambda x, y: x < y, lambda vz, a, b: vz == If(a < b, one, 0), lambda l, a, b: z3.And(a - b >= -(1 << (l - 1)), a - b < 1 << (l - 1))),
        'ge': (2, lambda x, y: x >= y, lambda vz, a, b: vz == If(a >= b, one, 0), lambda l, a, b: z3.And(a - b >= -(1 << (l - 1)), a - b < 1 << (l - 1))),
        'eq': (2, lambda x, y: x == y, lambda vz, a, b: vz == If(a == b, one, 0), lambda l, a, b: z3.And(a - b >= -(1 << (l - 1)), a - b < 1 << (l - 1))),
        'sgn': (1, lambda x: mpc.sgn(x), lambda vz, a: vz == If(a < 0, -one, If(a == 0, 0, one)), None),
        'abs': (1, lambda x: abs(x), lambda vz, a: vz == If(a < 0, -a, a), lambda l, a: a > -(1 << (l - 1))),
        'lshift1': (1, lambda x: x << 1, lambda vz, a: vz == 2 * a, None),
        'lshiftf': (1, lambda x: x << f, lambda vz, a: vz == a * one, lambda l, a: z3.And(a * one >= -(1 << (l - 1)), a * one < 1 << (l - 1))),
        'if_else': (3, lambda c, x, y: mpc.if_else(c, x, y), lambda vz, c, a, b: vz == If(c == one, a, b), lambda l, c, a, b: z3.Or(c == 0, c == one)),
        'trunc': (1, lambda x: mpc.trunc(x), lambda vz, a: z3.And(z3.Or(vz == fl(a), vz == fl(a) + 1), z3.Implies(a % one == 0, vz == fl(a))), None),
        'min2': (2, lambda x, y: mpc.min(x, y), lambda vz, a, b: vz == If(a < b, a, b), lambda l, a, b: z3.And(a - b >= -(1 << (l - 1)), a - b < 1 << (l - 1))),
        'pos': (1, lambda x: +x, lambda vz, a: vz == a, None),
    }
    return T


# float factors for 'mulfloat': within 2(1+|x|) units of the exact product with the same float
FLOATS = [0.5, 1.5, -0.75, 0.1, 2.0, -3.0, 2.5, 0.015625]


def inst_fxp_op(H, l, f, op, flags):
    mpc = H.rt
    secfxp = mpc.SecFxp(l, f); H.register_field(secfxp.field); p = secfxp.field.modulus
    arity, sec_f, goal_f, pre = _unary_binary_ops(mpc, f)[op]
    lo, hi = rng(l)
    if op == 'trunc': lo, hi = rng(l + f)

    def build():
        xs, vs = [], []
        for i in range(arity):
            fl = flags[i] if i < len(flags) else None
            if op == 'if_else' and i == 0:
                x, v = H.secret(secfxp, 'c', 0, 2, integral=True)
                # condition: 0 or 1 (scaled)
                sv = v << f if not isinstance(v, int) else v << f
                x = secfxp(secfxp.field((v << f) if isinstance(v, int) else (v << f).relabel(H.tv)), integral=True); v = sv
            else:
                x, v = _flagged(H, secfxp, 'abcd'[i], lo, hi, fl)
            xs.append(x); vs.append(v)
        if pre is not None and C.pins is None:
            C.add(pre(l, *[zt(v) for v in vs]))
        z = sec_f(*xs)
        if max_deg(z) > H.tv:
            raise GhostViolation('result-degree', f'{op} returns a sharing of degree {max_deg(z)} > t')
        return (H.open(z), z), vs

    def check(o, vs):
        val, zobj = o
        terms = [zt(v) for v in vs]
        if pre is not None and C.pins is not None and not _truth(pre(l, *terms)): return []
        vz = signed_formula(val, p)
        return [(op, goal_f(vz, *terms))] + _int_goals(op, zobj, vz, f)
    return build, check


def inst_fxp_mulfloat(H, l, f, idx):
    mpc = H.rt
    secfxp = mpc.SecFxp(l, f); H.register_field(secfxp.field); p = secfxp.field.modulus
    c = FLOATS[idx]
    lo, hi = rng(l)
    one = 1 << f

    def build():
        x, v = _flagged(H, secfxp, 'a', lo, hi, None)
        if C.pins is None:
            # exact product in range
            cf = Fraction(c)
            C.add(z3.And(zt(v) * cf.numerator >= -(1 << (l - 2)) * cf.denominator, zt(v) * cf.numerator < (1 << (l - 2)) * cf.denominator))
        z = x * c
        return (H.open(z), z), v

    def check(o, v):
        val, zobj = o
        a = zt(v); vz = signed_formula(val, p)
        cf = Fraction(c)       # exact rational of the same float
        # | vz - a*c | <= 2 (1 + |x|) units, all in units of 2^-f:  |x| = |a|/2^f
        # <=> | vz*den - a*num | * one <= 2*(one + |a|) * den
        num, den = cf.numerator, cf.denominator
        diff = vz * den - a * num
        absd = z3.If(diff >= 0, diff, -diff); absa = z3.If(a >= 0, a, -a)
        return [('mulfloat-within-2(1+|x|)-units', absd * one <= 2 * (one + absa) * den)] + _int_goals('mulfloat', zobj, vz, f)
    return build, check


def inst_fxp_pow(H, l, f, n):
    """x**n within n(1+|x|)^(n-1) units (small |x|)"""
    mpc = H.rt
    secfxp = mpc.SecFxp(l, f); H.register_field(secfxp.field); p = secfxp.field.modulus
    one = 1 << f
    bnd = 1 << max(f, (l - 2) // n - 0)       # keep x**n in range: |x| < 2^((l-f-2)/n)
    B = max(one // 2, int((2 ** ((l - f - 2) / n)) * one))
    def build():
        x, v = _flagged(H, secfxp, 'a', -B, B + 1, None)
        z = x ** n
        return (H.open(z), z), v

    def check(o, v):
        val, zobj = o
        a = zt(v); vz = signed_formula(val, p)
        # |vz/one - (a/one)^n| <= n (1+|a|/one)^(n-1) / one     multiply by one^n:
        # |vz*one^(n-1) - a^n| <= n (one+|a|)^(n-1)
        an = a
        for _ in range(n - 1): an = an * a
        absa = z3.If(a >= 0, a, -a)
        rhs = z3.IntVal(n)
        for _ in range(n - 1): rhs = rhs * (one + absa)
        diff = vz * (one ** (n - 1)) - an
        absd = z3.If(diff >= 0, diff, -diff)
        return [(f'pow{n}-within-n(1+|x|)^(n-1)-units', absd <= rhs)] + _int_goals(f'pow{n}', zobj, vz, f)
    return build, check


LIST_FUNCS = ['vector_add', 'vector_sub', 'scalar_mul', 'schur_prod', 'if_else_list', 'if_swap_list', 'sum', 'in_prod', 'prod', 'matrix_prod',
              'vector_add_int']


def inst_fxp_list(H, l, f, func, flags):
    """list functions on 2-element lists with per-element integrality flags (C03) and value contracts (C02)"""
    mpc = H.rt
    secfxp = mpc.SecFxp(l, f); H.register_field(secfxp.field); p = secfxp.field.modulus
    one = 1 << f
    lo, hi = rng(l - 2 if func in ('schur_prod', 'in_prod', 'prod', 'scalar_mul', 'matrix_prod') else l - 1)
    small = func in ('schur_prod', 'in_prod', 'prod', 'scalar_mul', 'matrix_prod', 'prod_start')
    if small: lo, hi = -(1 << ((l + f) // 2 - 2)), 1 << ((l + f) // 2 - 2)
    fl = lambda t: t / one
    near = lambda vz, num: z3.Or(vz == fl(num), vz == fl(num) + 1)

    def build():
        xs = [_flagged(H, secfxp, f'x{i}', lo, hi, flags[i]) for i in range(2)]
        ys = [_flagged(H, secfxp, f'y{i}', lo, hi, flags[2 + i]) for i in range(2)]
        X, Y = [a for a, _ in xs], [a for a, _ in ys]
        xv, yv = [v for _, v in xs], [v for _, v in ys]
        if func == 'vector_add': z = mpc.vector_add(X, Y)
        elif func == 'vector_add_int': z = mpc.vector_add(X, [1, 2])
        elif func == 'vector_sub': z = mpc.vector_sub(X, Y)
        elif func == 'scalar_mul': z = mpc.scalar_mul(Y[0], X)
        elif func == 'schur_prod': z = mpc.schur_prod(X, Y)
        elif func == 'if_else_list':
            c = secfxp(1, integral=True) if flags[4] else secfxp(0, integral=True)
            z = mpc.if_else(c, X, Y)
        elif func == 'if_swap_list':
            c = secfxp(1, integral=True) if flags[4] else secfxp(0, integral=True)
            u, w = mpc.if_swap(c, X, Y); z = list(u) + list(w)
        elif func == 'sum': z = [mpc.sum(X + Y)]
        elif func == 'sum_start': z = [mpc.sum(X, start=Y[0])]
        elif func == 'sum_start_float': z = [mpc.sum(X, start=0.5)]
        elif func == 'sum_start_int': z = [mpc.sum(X, start=3)]
        elif func == 'prod_start': z = [mpc.prod(X, start=Y[0])]
        elif func == 'in_prod': z = [mpc.in_prod(X, Y)]
        elif func == 'prod': z = [mpc.prod(X)]
        elif func == 'matrix_prod': z = [e for r in mpc.matrix_prod([X], [[Y[0]], [Y[1]]]) for e in r]
        else: raise KeyError(func)
        if max_deg(z) > H.tv:
            raise GhostViolation('result-degree', f'{func} returns a sharing of degree {max_deg(z)} > t')
        return (H.open(z), z), (xv, yv)

    def check(o, info):
        vals, zs = o
        xv, yv = [zt(v) for v in info[0]], [zt(v) for v in info[1]]
        vz = [signed_formula(v, p) for v in vals]
        g = []
        if func == 'vector_add': g = [(f'{func}-{i}', vz[i] == xv[i] + yv[i]) for i in range(2)]
        elif func == 'vector_add_int': g = [(f'{func}-{i}', vz[i] == xv[i] + (i + 1) * one) for i in range(2)]
        elif func == 'vector_sub': g = [(f'{func}-{i}', vz[i] == xv[i] - yv[i]) for i in range(2)]
        elif func == 'scalar_mul': g = [(f'{func}-{i}', near(vz[i], yv[0] * xv[i])) for i in range(2)]
        elif func == 'schur_prod': g = [(f'{func}-{i}', near(vz[i], xv[i] * yv[i])) for i in range(2)]
        elif func == 'if_else_list': g = [(f'{func}-{i}', vz[i] == (xv[i] if flags[4] else yv[i])) for i in range(2)]
        elif func == 'if_swap_list':
            a, b = (yv, xv) if flags[4] else (xv, yv)
            g = [(f'{func}-first-{i}', vz[i] == a[i]) for i in range(2)] + [(f'{func}-second-{i}', vz[2 + i] == b[i]) for i in range(2)]
        elif func == 'sum': g = [(func, vz[0] == xv[0] + xv[1] + yv[0] + yv[1])]
        elif func == 'sum_start': g = [(func, vz[0] == xv[0] + xv[1] + yv[0])]
        elif func == 'sum_start_float': g = [(func, vz[0] == xv[0] + xv[1] + one // 2)]
        elif func == 'sum_start_int': g = [(func, vz[0] == xv[0] + xv[1] + 3 * one)]
        elif func == 'prod_start': g = []   # value of a product chain is the 'prod' instance; here only the integrality goals below
        elif func in ('in_prod', 'matrix_prod'):
            num = xv[0] * yv[0] + xv[1] * yv[1]
            g = [(func, near(vz[0], num))]
        elif func == 'prod': g = [(func, near(vz[0], xv[0] * xv[1]))]
        for i, zobj in enumerate(zs):
            g += _int_goals(f'{func}-{i}', zobj, vz[i], f)
        return g
    return build, check


def inst_fxp_ctor(H, l, f, kind):
    """constructor paths of SecureFixedPoint set the flag truthfully (concrete arguments)"""
    mpc = H.rt
    secfxp = mpc.SecFxp(l, f); H.register_field(secfxp.field); p = secfxp.field.modulus
    one = 1 << f
    samples = dict(int=[0, 1, -3, 7], float=[0.0, 1.0, -2.0, 0.5, 2 ** -f, 1.5, -0.25, 3.0], none=[None])[kind]

    def build():
        out = []
        for s in samples:
            x = secfxp(s) if s is not None else secfxp(None, integral=None)
            if s is None: continue
            out.append((s, x.integral, x.share.value))
        return out, None

    def check(o, _):
        g = []
        for s, flag, v in o:
            exact = Fraction(s) * one
            if flag is True:
                g.append((f'ctor({s!r}):flag-true-implies-whole', z3.BoolVal(int(v) % p % one == 0 if int(v) % p <= p // 2 else (int(v) % p - p) % one == 0)))
            g.append((f'ctor({s!r}):value', z3.BoolVal((int(v) - round(exact)) % p == 0)))
        return g
    return build, check


# ------------------------------------------------------------------ conversions (C06)
def inst_convert(H, src, dst):
    """src/dst: ('int', l) | ('fxp', l, f).  x of source type with value that fits the target -> same value (fxp->int: floor or ceil)"""
    mpc = H.rt
    def mk(t):
        return mpc.SecInt(t[1]) if t[0] == 'int' else mpc.SecFxp(t[1], t[2])
    S, T = mk(src), mk(dst)
    H.register_field(S.field); H.register_field(T.field)
    fs, ft = S.frac_length, T.frac_length
    pt = T.field.modulus
    ls, lt_ = S.bit_length, T.bit_length

    def build():
        lo, hi = rng(ls)
        x, v = H.secret(S, 'a', lo, hi, integral=None) if fs else H.secret(S, 'a', lo, hi)
        if C.pins is None:
            # value fits the target type: v * 2^(ft-fs) within lt bits
            a = zt(v)
            if ft >= fs: C.add(z3.And(a * (1 << (ft - fs)) >= -(1 << (lt_ - 1)), a * (1 << (ft - fs)) < 1 << (lt_ - 1)))
            else: C.add(z3.And(a >= -(1 << (lt_ - 1 + fs - ft)), a < (1 << (lt_ - 1 + fs - ft)) - (1 << (fs - ft))))
        z = mpc.convert(x, T)
        if max_deg(z) > H.tv:
            raise GhostViolation('result-degree', f'convert returns a sharing of degree {max_deg(z)} > t')
        return (H.open(z), z), v

    def check(o, v):
        val, zobj = o
        a = zt(v); vz = signed_formula(val, pt)
        if ft >= fs:
            g = [('convert-value-preserved', vz == a * (1 << (ft - fs)))]
        else:
            d = 1 << (fs - ft)
            g = [('convert-rounds-to-neighbour', z3.Or(vz == a / d, vz == a / d + 1)), ('convert-exact-when-whole', z3.Implies(a % d == 0, vz == a / d))]
        if ft: g += _int_goals('convert', zobj, vz, ft)
        return g
    return build, check


INSTANCES = dict(fxp_op=inst_fxp_op, fxp_mulfloat=inst_fxp_mulfloat, fxp_pow=inst_fxp_pow, fxp_list=inst_fxp_list, fxp_ctor=inst_fxp_ctor,
                 convert=inst_convert)
