"""mp-mode obligations, part 2: routing of transfer/input/output (C07, C19), handshake and PRSS key placement (C16),
program-counter / barrier bookkeeping after each primitive (C09, C35)."""
import itertools, time, asyncio, random as pyrandom
from lib.common import Ob, B, ROOT
from sx import mp
from sx.mp import PartyFailure
from sx.mpinst import _ob


def _subsets(m, tier):
    allsub = [list(c) for r in range(m + 1) for c in itertools.combinations(range(m), r)]
    if m <= 3 or (tier != 'quick' and m <= 4): return allsub
    rnd = pyrandom.Random(m)
    pick = [[], list(range(m)), [0], [m - 1], [0, m - 1], list(range(1, m)), list(range(m - 1))]
    pick += rnd.sample(allsub, min(len(allsub), 10 if tier == 'quick' else 24))
    return pick


def _run(m, t, prog, no_prss=False, seed=1):
    mp.uninstall_symbolic(); mp.clear_caches(); mp.install_seeded(seed)
    loop, net, rts = mp.make_parties(m, t, no_prss=no_prss, k=30)
    try:
        res = mp.run_all(loop, rts, prog)
        lo = net.leftovers()
        bal = None
        if lo['unreceived'] or lo['unmatched_receives'] or net.errors:
            bal = f'network not balanced: {str(lo)[:200]} {net.errors[:2]}'
        pcs = [(rt._pc_level, rt._program_counter[1]) for rt in rts]
        if bal is None and any(pc != (0, 0) for pc in pcs):
            bal = f'after the call some party has (_pc_level, depth) != (0, 0): {pcs}'
        return res, net, bal
    finally:
        loop.close()


def _replay(fn, args):
    return (f"import sys; sys.argv=['replay','--no-log']; sys.path.insert(0, {ROOT!r})\n"
            f"from sx import mpinst2\nobs = mpinst2.{fn}(*{args!r})\n"
            f"bad = [o for o in obs if o.status == 'refuted']\nprint(bad[0].detail if bad else 'contract holds')\nsys.exit(1 if bad else 0)\n")


# ------------------------------------------------------------------ transfer
def transfer_routing(m, t, tier, only=None):
    """transfer(obj, senders, receivers) and transfer(obj, sender_receivers=graph): each receiver obtains exactly its designated senders'
    objects in sender order (scalar for an int sender); nobody else obtains a value; messages travel only along declared arcs."""
    func = 'mpyc.runtime.Runtime.transfer'
    out = []
    t0 = time.time()
    cases = []
    subs = _subsets(m, tier)
    for S in subs:
        for R in subs:
            cases.append(('sr', S, R))
    for i in range(m):
        for R in subs:
            cases.append(('sr', i, R))              # int sender
        for S in subs:
            cases.append(('sr', S, i))              # int receiver
        for j in range(m):
            cases.append(('sr', i, j))
    cases.append(('sr', None, None))
    for S in subs[:6]: cases.append(('sr', S, None)); cases.append(('sr', None, S))
    # graphs
    arcs_all = [(a, b) for a in range(m) for b in range(m)]
    rnd = pyrandom.Random(7 * m + t)
    graphs = [[]] + [[a] for a in arcs_all[: 6 if tier == 'quick' else 16]]
    for _ in range(12 if tier == 'quick' else 60):
        g0 = rnd.sample(arcs_all, rnd.randint(1, min(len(arcs_all), 5)))
        graphs.append(sorted(set(g0)))
        graphs.append(list(g0))                      # arcs in arbitrary order: a receiver's values come in the order its senders are LISTED
        graphs.append(sorted(set(g0), reverse=True))
    for g in graphs:
        cases.append(('pairs', g, None))
        d = {a: [b for a2, b in g if a2 == a] for a in range(m)}
        cases.append(('dict', d, None))
    if only is not None: cases = [cases[only]] if isinstance(only, int) else [only]
    bad = None; n = 0; badcase = None
    for kind, A, Bv in cases:
        n += 1
        async def prog(rt, kind=kind, A=A, Bv=Bv):
            obj = ('from', rt.pid)
            if kind == 'sr': return await rt.transfer(obj, senders=A, receivers=Bv)
            return await rt.transfer(obj, sender_receivers=A)
        try:
            res, net, bal = _run(m, t, prog)
        except PartyFailure as e:
            bad = f'transfer case {(kind, A, Bv)}: {str(e)[:300]}'; badcase = (kind, A, Bv); break
        # expected
        if kind == 'sr':
            S = list(range(m)) if A is None else [A] if isinstance(A, int) else list(A)
            R = list(range(m)) if Bv is None else [Bv] if isinstance(Bv, int) else list(Bv)
            arcs = [(a, b) for a in S for b in R]
            senders_of = lambda j: S if j in R else []
            scalar = isinstance(A, int)
        else:
            arcs = list(A) if kind == 'pairs' else [(a, b) for a, bs in A.items() for b in bs]
            senders_of = (lambda j: [a for a, b in arcs if b == j])
            scalar = False
        for j in range(m):
            exp = [('from', a) for a in senders_of(j)]
            got = res[j]
            if scalar:
                ok = (got == exp[0]) if exp else (got is None or got == [])
            else:
                ok = (got == exp) or (not exp and got is None)
            if not ok:
                bad = f'transfer case {(kind, A, Bv)}: party {j} obtained {got!r}, designated {exp!r}'; badcase = (kind, A, Bv); break
        if bad: break
        for src, dst, pc, payload in net.sent:
            if (src, dst) not in arcs:
                bad = f'transfer case {(kind, A, Bv)}: message {src}->{dst} outside the declared graph'; badcase = (kind, A, Bv); break
        if bad is None and bal: bad = f'transfer case {(kind, A, Bv)}: {bal}'; badcase = (kind, A, Bv)
        if bad: break
    key = None
    if badcase is not None:
        kind, A, Bv = badcase
        shape = ('int-sender' if isinstance(A, int) else 'list-senders') + ('/non-receiver' if kind == 'sr' else '')
        key = f'{func}:routing:{kind}:{shape}:{"IndexError" if bad and "IndexError" in bad else "value"}'
    out.append(_ob(f'transfer:routing[m={m},t={t}]', func, t0, f'(m,t)=({m},{t}); {len(cases)} sender/receiver sets and graphs', bad, evals=n, key=key,
                   replay=_replay('transfer_routing', (m, t, tier, badcase)) if badcase else None))
    return out


# ------------------------------------------------------------------ input / output
def io_routing(m, t, tier, no_prss=False, only=None):
    func = 'mpyc.runtime.Runtime.input/output'
    out = []
    t0 = time.time()
    subs = [s for s in _subsets(m, tier)]
    cases = []
    for S in subs:
        if S: cases.append(('input', S))
    for i in range(m): cases.append(('input', i))
    cases.append(('input', None))
    for R in subs:
        for thr in sorted({None, t, 2 * t, min(t + 1, 2 * t)}, key=lambda v: (-1 if v is None else v)):
            cases.append(('output', R, thr))
    for j in range(m): cases.append(('output', j, None))
    cases.append(('output', None, None))
    if only is not None: cases = [only]
    bad = None; n = 0; badcase = None
    for case in cases:
        n += 1
        if case[0] == 'input':
            S = case[1]
            async def prog(rt, S=S):
                secint = rt.SecInt(16)
                x = rt.input(secint(100 + rt.pid), senders=S)
                xl = rt.input([secint(200 + rt.pid), secint(300 + rt.pid)], senders=S)
                return await rt.output(x), await rt.output([a for r in xl for a in r] if not isinstance(S, int) else xl)
            try:
                res, net, bal = _run(m, t, prog, no_prss)
            except PartyFailure as e:
                bad = f'input case {case}: {str(e)[:300]}'; badcase = case; break
            Sl = list(range(m)) if S is None else [S] if isinstance(S, int) else list(S)
            exp1 = 100 + S if isinstance(S, int) else [100 + i for i in Sl]
            exp2 = [200 + S, 300 + S] if isinstance(S, int) else [v for i in Sl for v in (200 + i, 300 + i)]
            for j in range(m):
                if res[j] != (exp1, exp2):
                    bad = f'input case {case}: party {j} opens {res[j]!r}, expected {(exp1, exp2)!r}'; badcase = case; break
        else:
            _, R, thr = case
            async def prog(rt, R=R, thr=thr):
                secint = rt.SecInt(16)
                a = rt.input(secint(5 + rt.pid), senders=0)
                y2 = a + 3
                o1 = await rt.output(y2, receivers=R, threshold=thr)
                o2 = await rt.output([y2, a], receivers=R)
                fld = await rt.output(secint.field(9), receivers=R)
                return o1, o2, (None if fld is None else int(fld))
            try:
                res, net, bal = _run(m, t, prog, no_prss)
            except PartyFailure as e:
                bad = f'output case {case}: {str(e)[:300]}'; badcase = case; break
            Rl = list(range(m)) if R is None else [R] if isinstance(R, int) else list(R)
            for j in range(m):
                exp = (8, [8, 5], 9) if j in Rl else (None, [None, None], None)
                if res[j] != exp:
                    bad = f'output case {case}: party {j} obtained {res[j]!r}, expected {exp!r}'; badcase = case; break
            if bad is None:
                # messages of the three outputs go to receivers only; input(senders=0) messages come from party 0
                for src, dst, pc, payload in net.sent:
                    if dst not in Rl and src != 0:
                        bad = f'output case {case}: message {src}->{dst} although {dst} is not a receiver'; badcase = case; break
        if bad is None and bal: bad = f'{case}: {bal}'; badcase = case
        if bad: break
    out.append(_ob(f'input+output:routing[m={m},t={t},prss={not no_prss}]', func, t0, f'(m,t)=({m},{t}); {len(cases)} sender / receiver sets, thresholds t..2t', bad,
                   evals=n, key=f'{func}:routing:{badcase[0] if badcase else ""}', replay=_replay('io_routing', (m, t, tier, no_prss, badcase)) if badcase else None))
    return out


# ------------------------------------------------------------------ handshake (C16)
class _Transport:
    def __init__(self): self.data = bytearray(); self.closed = False
    def writelines(self, chunks):
        for c in chunks: self.data.extend(c)
    def write(self, b): self.data.extend(b)
    def close(self): self.closed = True


def handshake(m, t, tier):
    """real threshold setter (key generation), real client connection_made, real server data_received for several chunkings,
    real _prss_keys_to_peer/_prss_keys_from_peer/set_protocol: afterwards every (m-t)-subset's key is held by exactly its members."""
    import argparse
    M = mp.modules(); rtmod, asyncoro = M['rtmod'], M['asyncoro']
    func = 'mpyc.runtime.Runtime.threshold.setter/_prss_keys_to_peer/_prss_keys_from_peer + MessageExchanger.connection_made/data_received'
    out = []
    t0 = time.time()
    mp.uninstall_symbolic()
    chunkings = ['whole', 'bytes', 'split2'] + (['split3'] if tier != 'quick' else [])
    bad = None; n = 0
    for chunking in chunkings:
        for order in ('ascending', 'descending'):
            n += 1
            loop = asyncio.new_event_loop(); asyncio.set_event_loop(loop)
            cnt = itertools.count(1)

            class _Sec:
                token_bytes = staticmethod(lambda k: next(cnt).to_bytes(k, 'big'))      # distinct "random" keys
                randbelow = staticmethod(lambda k: 0)
                randbits = staticmethod(lambda k: 0)
            saved = rtmod.secrets
            rtmod.secrets = _Sec
            try:
                rts = []
                for i in range(m):
                    opt = argparse.Namespace(**vars(mp._state['base_options']))
                    opt.threshold = t; opt.no_async = False; opt.no_prss = False; opt.no_log = True
                    parties = [rtmod.Party(j, 'h', 0) for j in range(m)]
                    rt = rtmod.Runtime(i, parties, opt)
                    rt._loop = loop
                    for peer in rt.parties:
                        peer.protocol = asyncio.Future(loop=loop) if peer.pid == rt.pid else None
                    rts.append(rt)
                pairs = [(i, j) for i in range(m) for j in range(i + 1, m)]
                if order == 'descending': pairs.reverse()
                for i, j in pairs:          # i (lower pid) is client, j is server
                    mp.CUR.set(rts[i])
                    client = asyncoro.MessageExchanger(rts[i], j)
                    tr = _Transport()
                    client.connection_made(tr)
                    stream = bytes(tr.data)
                    mp.CUR.set(rts[j])
                    server = asyncoro.MessageExchanger(rts[j])
                    server.connection_made(_Transport())
                    # a first framed message may already follow the handshake in the same stream
                    extra = b''
                    import struct
                    extra = struct.pack('<qI3s', 77, 3, b'abc')
                    full = stream + extra
                    if chunking == 'whole': chunks = [full]
                    elif chunking == 'bytes': chunks = [full[k:k + 1] for k in range(len(full))]
                    elif chunking == 'split2':
                        cut = (len(full) * (i + 2 * j + 1)) % max(1, len(full))
                        chunks = [full[:cut], full[cut:]]
                    else:
                        c1 = min(1, len(full)); c2 = max(c1, len(stream) - 1 if len(stream) > 1 else c1)
                        chunks = [full[:c1], full[c1:c2], full[c2:]]
                    for ch in chunks:
                        server.data_received(ch)
                    if server.peer_pid != i:
                        bad = f'server {j} recovered peer pid {server.peer_pid} instead of {i} (chunking {chunking})'; break
                    if server.buffers.get(77) != b'abc' or len(server.bytes) != 0:
                        bad = f'frame following the handshake lost or garbled at server {j} (chunking {chunking}): buffers={dict(server.buffers)!r} rest={bytes(server.bytes)!r}'; break
                    if rts[j].parties[i].protocol is not server or rts[i].parties[j].protocol is not client:
                        bad = f'set_protocol did not register the connection {i}<->{j}'; break
                if bad: break
                subsets = list(itertools.combinations(range(m), m - t))
                keysets = [rt._prss_keys for rt in rts]
                seen = {}
                for S in subsets:
                    vals = {bytes(keysets[i][S]) for i in S if S in keysets[i]}
                    missing = [i for i in S if S not in keysets[i]]
                    if missing: bad = f'members {missing} of subset {S} hold no key for it (chunking {chunking}, order {order})'; break
                    if len(vals) != 1: bad = f'members of subset {S} hold different keys {vals}'; break
                    outsiders = [i for i in range(m) if i not in S and S in keysets[i]]
                    if outsiders: bad = f'non-members {outsiders} hold the key of subset {S}'; break
                    k = vals.pop()
                    if k in seen: bad = f'subsets {seen[k]} and {S} share one key'; break
                    seen[k] = S
                if bad: break
                for i in range(m):
                    extra_keys = [S for S in keysets[i] if S not in subsets or i not in S]
                    if extra_keys: bad = f'party {i} holds keys for {extra_keys} (not (m-t)-subsets containing it)'; break
                    if m > 1 and not rts[i].parties[i].protocol.done():
                        bad = f'party {i}: start future not completed although all peers are registered'; break
                # every coalition of t parties lacks at least one key
                if bad is None and t >= 1:
                    for A in itertools.combinations(range(m), t):
                        comp = tuple(i for i in range(m) if i not in A)
                        if any(comp in keysets[a] for a in A): bad = f'coalition {A} holds the key of its complement'; break
            except Exception as e:
                import traceback
                bad = f'handshake raised {type(e).__name__}: {e} (chunking {chunking})\n' + traceback.format_exc()[-800:]
            finally:
                rtmod.secrets = saved
                loop.close()
            if bad: break
        if bad: break
    out.append(_ob(f'handshake:key-placement[m={m},t={t}]', func, t0, f'(m,t)=({m},{t}); chunkings {chunkings} x connection orders', bad, evals=n,
                   key='handshake:key-placement', replay=_replay('handshake', (m, t, tier)) if bad else None))
    return out


# ------------------------------------------------------------------ crash points (C36): a party stops sending after its k-th message
def crash_points(m, t, tier, no_prss=False, only=None, mode='lost'):
    """program: c = a0*a1 + a2 (input by all, multiplication, resharing, output).  Party j's messages with index >= k are never delivered
    (it crashed after k sends).  Every OTHER party must either obtain the correct value or never complete; never a wrong value.
    mode 'lost': the messages are lost silently.  mode 'eof': the crash is noticed - at that moment every other party deregisters the connection
    (Runtime.unset_protocol: parties[j].protocol = None), as after a clean EOF; exceptions in a party then count as "no output"."""
    func = 'mpyc.runtime.Runtime.output/_reshare/input (crash of one party)'
    t0 = time.time()
    from sx.mp import BLOCKED

    async def prog(rt):
        secint = rt.SecInt(16)
        a = rt.input(secint(3 + rt.pid))
        c = a[0] * a[min(1, m - 1)] + a[min(2, m - 1)]
        d = rt.lsb(c)
        return await rt.output([c, d])
    vals = [3 + i for i in range(m)]
    exp_c = vals[0] * vals[min(1, m - 1)] + vals[min(2, m - 1)]
    expect = [exp_c, exp_c % 2]

    def run(j, k):
        mp.uninstall_symbolic(); mp.clear_caches(); mp.install_seeded(1)
        loop, net, rts = mp.make_parties(m, t, no_prss=no_prss, k=30)
        sent_by_j = [0]
        for i, rt in enumerate(rts):
            for peer in rt.parties:
                pr = peer.protocol
                if i == j and pr is not None and hasattr(pr, 'send'):
                    orig = pr.send
                    def send(pc, payload, orig=orig):
                        sent_by_j[0] += 1
                        if sent_by_j[0] > k:            # crashed: message lost
                            if mode == 'eof' and j >= 0:
                                for i2, rt2 in enumerate(rts):
                                    if i2 != j: rt2.parties[j].protocol = None
                            return
                        return orig(pc, payload)
                    pr.send = send
        try:
            return mp.run_all(loop, rts, prog, allow_blocked=('continue' if mode == 'eof' else True)), sent_by_j[0]
        finally:
            loop.close()
    # number of messages a party sends in a complete run
    res_full, _ = run(-1, 10 ** 9)
    bad = None; n = 0; badcase = None
    if any(r != expect for r in res_full): bad = f'fault-free run gives {res_full}, expected {expect}'
    parties = range(m) if tier != 'quick' else sorted({0, m - 1, m // 2})
    if only is not None: parties = [only[0]]
    for j in parties:
        if bad: break
        _, total = run(j, 10 ** 9)
        ks = range(total + 1) if only is None else [only[1]]
        for k in ks:
            n += 1
            res, _ = run(j, k)
            for i, r in enumerate(res):
                if i == j or r == BLOCKED or (isinstance(r, tuple) and r and r[0] == 'EXC'): continue
                if r != expect:
                    bad = f'party {j} crashed after {k} of {total} sends: surviving party {i} outputs {r!r} instead of {expect}'; badcase = (j, k); break
            if bad: break
    return [_ob(f'crash:no-wrong-output[m={m},t={t},prss={not no_prss},{mode}]', func, t0, f'(m,t)=({m},{t}); one party crashing after each of its message sends ({"connection deregistered by the others" if mode == "eof" else "messages lost silently"})', bad,
                evals=max(1, n), key='crash:no-wrong-output', replay=_replay('crash_points', (m, t, tier, no_prss, badcase, mode)) if badcase else None)]
