"""Engine B ("symx") core: symbolic integer proxies that flow through the REAL mpyc code under CPython, and the
path explorer (depth-first by re-execution over branch decisions).

SymInt(int) carries a lazy modular normal form   value = N / D  (mod P)   with an interval for N:
  z    z3 Int term for N            lo, hi   concrete bounds of N
  D    concrete positive denominator          P  pending (field) modulus or None (exact integer, D == 1)
  deg  ghost: degree of the Shamir sharing this value is a share of (0 = public)
  factors  ghost: if the value is a product of field values, the list of factors (zero test without nonlinear terms)
"""
import z3, itertools, os

POISON = 0x5EEDBADC0FFEE


class Concretised(Exception):
    """the real code tried to use the integer payload of a symbolic value behind the proxy's back"""


class Pruned(Exception):
    """path abandoned: retry bound of a Las-Vegas loop reached"""


class SolverUnknown(Exception):
    """a validity query inside a stub / ghost check came back `unknown`"""


class GhostViolation(Exception):
    def __init__(self, kind, text):
        super().__init__(f'{kind}: {text}'); self.kind, self.text = kind, text


class Ctx:
    def __init__(self):
        self.field_moduli = set()
        self.tv = 0                 # virtual threshold of the deg ghost (0 = ghost off)
        self.max_decisions = 40
        self.max_retries = 2
        self.pins = None            # replay mode: {symbol name: concrete int}; fresh() then returns plain ints
        self.reset([])

    def reset(self, plan):
        self.plan, self.pos, self.pc, self.n, self.trace = list(plan), 0, [], 0, []
        self.naux = 0
        self.symbols = []           # (name, lo, hi) of every input symbol created on this path
        self.retries = 0
        self.opened = []            # leak ghost: normal forms handed to output
        self.log = []
        self.nonaffine_ok = 0
        self.solver = z3.Solver()
        self.solver.set('timeout', int(os.environ.get('VERIF_SX_QUERY_MS', '90000')))     # sized for 16 busy cores: slowest query ~3 s idle, >20 s seen under load

    def add(self, f):
        self.pc.append(f); self.solver.add(f)

    def fresh(self, name, lo, hi, deg=0):
        """fresh integer symbol in [lo, hi)"""
        self.n += 1
        self.symbols.append((f'{name}_{self.n}', lo, hi))
        if self.pins is not None:
            v = int(self.pins.get(f'{name}_{self.n}', lo))
            assert lo <= v < hi, f'pinned value {v} of {name}_{self.n} outside [{lo},{hi})'
            return v
        if (lo, hi) == (0, 2):
            b = z3.Bool(f'{name}_{self.n}')
            return SymInt(z3.If(b, 1, 0), 0, 1, deg=deg)
        v = z3.Int(f'{name}_{self.n}')
        self.add(v >= lo); self.add(v < hi)
        return SymInt(v, lo, hi - 1, deg=deg)

    def check(self, *extra):
        return self.solver.check(*extra)

    def valid(self, f):
        r = self.solver.check(z3.Not(f))
        if r == z3.unknown:
            raise SolverUnknown(str(f)[:120])        # never turned into "not valid": an undecided query is undecided (exit 2), not a violation
        return r == z3.unsat

    def branch(self, cond, retry_if=None):
        """decide a Boolean the real code branches on; both outcomes are explored (re-execution)"""
        if z3.is_true(cond): return True
        if z3.is_false(cond): return False
        can_t = self.solver.check(cond) != z3.unsat
        can_f = self.solver.check(z3.Not(cond)) != z3.unsat
        if can_t and can_f:
            if self.pos < len(self.plan):
                d = self.plan[self.pos]
            else:
                if len(self.trace) >= self.max_decisions: raise Pruned()
                d = True if retry_if is None else (not retry_if)     # explore the non-retry branch first
                self.plan.append(d)
            self.pos += 1; self.trace.append(d)
        elif can_t or can_f:
            d = can_t
        else:
            raise Pruned()          # path condition infeasible (should not happen)
        if retry_if is not None and d == retry_if:
            self.retries += 1
            if self.retries > self.max_retries: raise Pruned()
        self.add(cond if d else z3.Not(cond))
        return d


C = Ctx()


def ratrec(c, p, B=1 << 20):
    """small n/d == c (mod p), |n|,|d| <= B, or None"""
    c %= p
    n0, n = c, p
    d0, d = 1, 0
    while n0 > B:
        q = n // n0
        n, n0 = n0, n - q * n0
        d, d0 = d0, d - q * d0
    if d0 != 0 and abs(d0) <= B:
        if d0 < 0: n0, d0 = -n0, -d0
        return n0, d0
    return None


def _iv_mul(a, b):
    c = (a.lo * b.lo, a.lo * b.hi, a.hi * b.lo, a.hi * b.hi)
    return min(c), max(c)


class SymInt(int):
    def __new__(cls, z, lo, hi, D=1, P=None, deg=0, factors=None):
        o = int.__new__(cls, POISON)
        o.z, o.lo, o.hi, o.D, o.P, o.deg, o.factors = z, lo, hi, D, P, deg, factors
        return o

    @staticmethod
    def of(x):
        if isinstance(x, SymInt): return x
        if isinstance(x, SymBool): return SymInt(z3.If(x.z, 1, 0), 0, 1)
        x = int(x)
        return SymInt(z3.IntVal(x), x, x)

    def relabel(self, deg):
        return SymInt(self.z, self.lo, self.hi, self.D, self.P, deg, self.factors)

    @property
    def is_const(self):
        return self.lo == self.hi and self.D == 1 and self.P is None

    # ---- materialise as exact integer (P None, D 1)
    def mat(self):
        if self.deg > 0 and not C.nonaffine_ok:
            raise GhostViolation('non-affine-on-share', f'integer representative of a degree-{self.deg} share observed locally')
        if self.P is None:
            return self
        p = self.P
        if self.D != 1:
            if C.valid(self.z % self.D == 0):
                q = SymInt(self.z / self.D, -(-self.lo // self.D), self.hi // self.D, 1, p, self.deg)
                return q.mat()
            C.naux += 1
            r = z3.Int(f'quot!{C.naux}'); k = z3.Int(f'k!{C.naux}')
            C.add(z3.And(0 <= r, r < p, r * self.D - self.z == k * p))
            return SymInt(r, 0, p - 1, deg=self.deg)
        if 0 <= self.lo and self.hi < p:
            return SymInt(self.z, self.lo, self.hi, deg=self.deg)
        k = self.lo // p
        if self.hi < (k + 1) * p:
            return SymInt(self.z - k * p, self.lo - k * p, self.hi - k * p, deg=self.deg)
        return SymInt(self.z % p, 0, p - 1, deg=self.deg)

    # ---- arithmetic
    def _arith(self, other, op):
        if isinstance(other, SymBool): other = SymInt.of(other)
        if not isinstance(other, int): return NotImplemented
        a, b = self, SymInt.of(other)
        P = a.P or b.P
        if a.P and b.P and a.P != b.P:
            # values of two different fields meet as integers: a public one (deg 0) is observed as its integer
            # representative, a share keeps its own pending modulus (the result re-enters that field)
            if a.deg == 0 and b.deg > 0: a = a.mat(); P = b.P
            elif b.deg == 0 and a.deg > 0: b = b.mat(); P = a.P
            else: a, b, P = a.mat(), b.mat(), None
        deg = max(a.deg, b.deg) if op in '+-' else a.deg + b.deg
        if P is None and (a.D != 1 or b.D != 1):
            raise Concretised('rational without modulus')
        if op in '+-':
            if a.D == b.D:
                za, zb, la, ha, lb, hb, D = a.z, b.z, a.lo, a.hi, b.lo, b.hi, a.D
            else:
                za, zb, D = a.z * b.D, b.z * a.D, a.D * b.D
                la, ha, lb, hb = a.lo * b.D, a.hi * b.D, b.lo * a.D, b.hi * a.D
            if op == '+': return SymInt(za + zb, la + lb, ha + hb, D, P, deg)
            return SymInt(za - zb, la - hb, ha - lb, D, P, deg)
        lo, hi = _iv_mul(a, b)
        factors = None
        if P is not None and not a.is_const and not b.is_const:
            factors = (a.factors or [a]) + (b.factors or [b])
            if deg > 2 * max(C.tv, 0) and C.tv:
                pass
        if a.is_const: z = b.z * a.lo
        elif b.is_const: z = a.z * b.lo
        else: z = _mul_terms(a, b)
        return SymInt(z, lo, hi, a.D * b.D, P, deg, factors)

    def __add__(s, o): return s._arith(o, '+')
    def __radd__(s, o): return SymInt.of(o)._arith(s, '+') if isinstance(o, (int, SymBool)) else NotImplemented
    def __sub__(s, o): return s._arith(o, '-')
    def __rsub__(s, o): return SymInt.of(o)._arith(s, '-') if isinstance(o, (int, SymBool)) else NotImplemented

    def __mul__(s, o):
        if isinstance(o, int) and not isinstance(o, SymInt) and s.P and abs(o) > (1 << 20):
            rr = ratrec(o, s.P)
            if rr and rr[1] != 1:
                n, d = rr
                c = (s.lo * n, s.hi * n)
                return SymInt(s.z * n, min(c), max(c), s.D * d, s.P, s.deg)
        return s._arith(o, '*')
    def __rmul__(s, o): return s.__mul__(o)

    def __neg__(s): return SymInt(-s.z, -s.hi, -s.lo, s.D, s.P, s.deg, s.factors)
    def __pos__(s): return s
    def __abs__(s):
        a = s.mat(); m = max(abs(a.lo), abs(a.hi))
        return SymInt(z3.If(a.z >= 0, a.z, -a.z), 0 if a.lo <= 0 <= a.hi else min(abs(a.lo), abs(a.hi)), m)

    def __mod__(s, m):
        if isinstance(m, SymInt):
            if m.is_const: m = m.lo
            else: raise Concretised('symbolic modulus')
        m = int(m)
        if m in C.field_moduli:
            if s.P == m: return s
            if s.P is None and s.D == 1:
                return SymInt(s.z, s.lo, s.hi, 1, m, s.deg, s.factors)
        a = s.mat()
        if m <= 0: raise Concretised('non-positive modulus')
        if 0 <= a.lo and a.hi < m: return a
        return SymInt(a.z % m, 0, m - 1)

    def __rmod__(s, o):
        raise Concretised('symbolic modulus')

    def __floordiv__(s, d):
        if isinstance(d, SymInt):
            if d.is_const: d = d.lo
            else: raise Concretised('symbolic divisor')
        d = int(d)
        if d <= 0: raise Concretised('non-positive divisor')
        a = s.mat()
        return SymInt(a.z / d, a.lo // d, a.hi // d)

    def __divmod__(s, d): return s // d, s % d

    def __lshift__(s, k):
        k = _conc(k)
        return s._arith(1 << k, '*') if True else None
    def __rlshift__(s, o): raise Concretised('symbolic shift amount')
    def __rshift__(s, k):
        k = _conc(k)
        a = s.mat(); d = 1 << k
        r = SymInt(a.z / d, a.lo // d, a.hi // d)
        if a.lo >= 0: r._shift_of = (a, k)
        return r
    def __rrshift__(s, o): raise Concretised('symbolic shift amount')

    def __and__(s, m):
        m = _conc(m)
        if m == 1:
            base, k = getattr(s, '_shift_of', (None, 0))
            if base is None: base = s.mat()
            if base.lo >= 0:
                bs = bits_of(base)
                return SymInt(z3.If(bs[k], 1, 0), 0, 1) if k < len(bs) else SymInt(z3.IntVal(0), 0, 0)
        if m >= 0 and m & (m + 1) == 0:
            return s % (m + 1)
        if m < 0 and isinstance(s, SymInt):
            raise Concretised('& with negative mask')
        raise Concretised('general bitwise and')
    __rand__ = __and__

    def __pow__(s, e, mod=None):
        e = _conc(e)
        if mod is not None or e < 0: raise Concretised('pow')
        r = SymInt.of(1)
        for _ in range(e): r = r * s
        return r

    def __truediv__(s, o): raise Concretised('true division of symbolic int')
    def __rtruediv__(s, o): raise Concretised('true division by symbolic int')

    # ---- observation
    def _cmp(s, o, f):
        if isinstance(o, SymBool): o = SymInt.of(o)
        if not isinstance(o, int): return NotImplemented
        a = s.mat(); b = SymInt.of(o).mat()
        return SymBool(f(a.z, b.z))
    def __lt__(s, o): return s._cmp(o, lambda a, b: a < b)
    def __le__(s, o): return s._cmp(o, lambda a, b: a <= b)
    def __gt__(s, o): return s._cmp(o, lambda a, b: a > b)
    def __ge__(s, o): return s._cmp(o, lambda a, b: a >= b)
    def __eq__(s, o):
        if isinstance(o, SymBool): o = SymInt.of(o)
        if not isinstance(o, int): return NotImplemented
        o = SymInt.of(o)
        if s.P is not None and (o.P == s.P or (o.P is None)):
            return SymBool(is_zero_formula(s - o if o.P == s.P else s - (o % s.P if s.P in C.field_moduli else o)))
        a = s.mat(); b = o.mat()
        return SymBool(a.z == b.z)
    def __ne__(s, o):
        r = s.__eq__(o)
        return r if r is NotImplemented else SymBool(z3.Not(r.z))
    def __bool__(s):
        # truth value of a value just opened by output(): the restart test of a Las-Vegas loop (True = restart)
        retry = True if getattr(s, 'opened', False) else None
        if s.P is not None:
            return C.branch(z3.Not(is_zero_formula(s)), retry_if=retry)
        a = s.mat(); return C.branch(a.z != 0, retry_if=retry)
    def __hash__(s): return id(s)
    def __index__(s): raise Concretised('__index__ of symbolic value')
    def __int__(s): raise Concretised('__int__ of symbolic value')
    def __float__(s): raise Concretised('__float__ of symbolic value')
    def __round__(s, n=None): raise Concretised('round of symbolic value')
    def __format__(s, spec): return repr(s)
    def bit_length(s): raise Concretised('bit_length of symbolic value')
    def to_bytes(s, *a, **k): raise Concretised('to_bytes of symbolic value')
    def __invert__(s): return -s - 1
    def __or__(s, o): raise Concretised('bitwise or')
    __ror__ = __or__
    def __xor__(s, o): raise Concretised('bitwise xor')
    __rxor__ = __xor__
    def __repr__(s): return f'Sym({z3.simplify(s.z)} /{s.D} mod {s.P} in [{s.lo},{s.hi}] deg {s.deg})'
    __str__ = __repr__
    def __reduce__(s): raise Concretised('pickling a symbolic value')


def _conc(k):
    if isinstance(k, SymInt):
        if k.is_const: return k.lo
        raise Concretised('symbolic shift/mask/exponent')
    return int(k)


def _mul_terms(a, b):
    """product of two symbolic terms; linearised by case split when one factor ranges over <= 4 values"""
    for x, y in ((a, b), (b, a)):
        if x.hi - x.lo <= 3:
            t = y.z * x.hi
            for v in range(x.hi - 1, x.lo - 1, -1):
                t = z3.If(x.z == v, y.z * v, t)
            return t
    return a.z * b.z


def bits_of(v):
    """Boolean bit decomposition of a non-negative exact value (memoised on the object)"""
    if not hasattr(v, '_bits'):
        assert v.lo >= 0 and v.P is None and v.D == 1
        W = max(1, int(v.hi).bit_length())
        C.naux += 1
        bs = [z3.Bool(f'bd!{C.naux}_{i}') for i in range(W)]
        C.add(v.z == z3.Sum([z3.If(b, 1 << i, 0) for i, b in enumerate(bs)]))
        v._bits = bs
    return v._bits


def is_zero_formula(v):
    """z3 formula: field value / integer v is zero"""
    v = SymInt.of(v)
    if v.P is None:
        return v.z == 0
    if v.factors:
        return z3.Or(*[is_zero_formula(f if f.P else SymInt(f.z, f.lo, f.hi, f.D, v.P)) for f in v.factors])
    p = v.P
    if -p < v.lo and v.hi < p:          # N/D == 0 mod p  <=>  N == 0 mod p (D invertible)  <=> N == 0
        return v.z == 0
    return v.z % p == 0


def field_eq_formula(v, expect, p):
    """z3 formula:  v == expect  in GF(p), where v is a SymInt (possibly N/D mod p), expect a z3 Int term or int"""
    v = SymInt.of(v)
    if v.P is None and v.D == 1:
        return (v.z - expect) % p == 0
    d = v.z - expect * v.D
    return d % p == 0


class SymBool:
    def __init__(self, z): self.z = z
    def __bool__(self): return C.branch(self.z)
    def __repr__(self): return f'SymBool({self.z})'
    def __eq__(self, o):
        if isinstance(o, SymBool): return SymBool(self.z == o.z)
        if isinstance(o, bool): return SymBool(self.z if o else z3.Not(self.z))
        return SymInt.of(self) == o
    def __ne__(self, o):
        r = self.__eq__(o); return SymBool(z3.Not(r.z))
    def __hash__(self): return id(self)
    def __int__(self): raise Concretised('int() of symbolic bool')
    def __index__(self): raise Concretised('index of symbolic bool')
    def __invert__(self): raise Concretised('~ of symbolic bool')
    def __add__(self, o): return SymInt.of(self) + o
    __radd__ = __add__
    def __rsub__(self, o): return o - SymInt.of(self)
    def __sub__(self, o): return SymInt.of(self) - o
    def __mul__(self, o): return SymInt.of(self) * o
    __rmul__ = __mul__


# ---------------------------------------------------------------- explorer
class PathResult:
    __slots__ = ('trace', 'status', 'detail', 'time', 'model')
    def __init__(self, trace, status, detail='', time=0.0, model=None):
        self.trace, self.status, self.detail, self.time, self.model = trace, status, detail, time, model


def explore(build, check, max_paths=5000, prepare=None):
    """build() runs the real code on fresh symbols and returns (result, ctx-info); check(result, info) -> list of
    (name, z3 goal).  Every feasible path (up to the retry bound) is executed; for each path every goal must be
    valid under the path condition.  Returns dict(paths, pruned, failures=[(name, trace, reason, model)])."""
    import time
    plans = [[]]
    res = dict(paths=0, pruned=0, failures=[], max_query=0.0, goals=0)
    while plans and res['paths'] + res['pruned'] < max_paths:
        plan = plans.pop(); base = len(plan)
        C.reset(plan)
        if prepare: prepare()
        try:
            out, info = build()
        except Pruned:
            res['pruned'] += 1
            trace = list(C.trace)
            for i in range(base, len(trace)): plans.append(trace[:i] + [not trace[i]])
            continue
        except SolverUnknown as u:
            trace = list(C.trace)
            res['failures'].append((f'solver-unknown:{u}', trace, 'unknown', None))
            for i in range(base, len(trace)): plans.append(trace[:i] + [not trace[i]])
            res['paths'] += 1
            continue
        except GhostViolation as g:
            trace = list(C.trace)
            m = C.solver.model() if C.solver.check() == z3.sat else None
            res['failures'].append((f'ghost:{g.kind}', trace, g.text, m))
            for i in range(base, len(trace)): plans.append(trace[:i] + [not trace[i]])
            res['paths'] += 1
            continue
        trace = list(C.trace)
        goals = check(out, info)
        for name, goal in goals:
            res['goals'] += 1
            t1 = time.time()
            if goal is True: continue
            r = C.solver.check(z3.Not(goal)) if goal is not False else C.solver.check()
            dt = time.time() - t1
            res['max_query'] = max(res['max_query'], dt)
            if r == z3.sat:
                res['failures'].append((name, trace, 'refuted', C.solver.model()))
            elif r != z3.unsat:
                res['failures'].append((name, trace, 'unknown', None))
        res['paths'] += 1
        for i in range(base, len(trace)): plans.append(trace[:i] + [not trace[i]])
    if plans:
        res['truncated'] = len(plans)
    return res


def model_pins(model):
    """z3 model -> {symbol name: int} for the input symbols of the path (auxiliary symbols contain '!')"""
    pins = {}
    if model is None: return pins
    for d in model.decls():
        n = d.name()
        if '!' in n: continue
        v = model[d]
        if z3.is_int_value(v): pins[n] = v.as_long()
        elif z3.is_true(v): pins[n] = 1
        elif z3.is_false(v): pins[n] = 0
    return pins


def zt(v):
    """z3 term of a value that is a SymInt (symbolic mode) or a plain int (replay mode)"""
    return v.z if isinstance(v, SymInt) else z3.IntVal(int(v))


def ground_true(goal):
    """evaluate a ground goal (replay mode)"""
    if goal is True or goal is False: return goal
    s = z3.Solver(); s.add(z3.Not(goal))
    return s.check() == z3.unsat
