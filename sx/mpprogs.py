"""Concrete m-party programs (run by sx.mpinst.concrete_program): composite protocols on concrete inputs with seeded randomness.
Each program returns (got, want, shares, None, inputs): results opened by every party, expected values, and for every secure
result its share as (field modulus, share value, expected field value or None) for the degree-t sharing check."""
import random as pyrandom
from fractions import Fraction


def _pick(rnd, lo, hi, extra=()):
    return rnd.choice([lo, hi - 1, 0, -1, 1, *extra] + [rnd.randrange(lo, hi) for _ in range(6)])


def P_fxp_ops(l):
    f = l // 2 if l <= 8 else l // 2
    async def prog(rt, seed):
        rnd = pyrandom.Random(seed)
        secfxp = rt.SecFxp(l, f)
        one = 1 << f
        half = 1 << (l - 1)
        p = secfxp.field.modulus
        B = 1 << ((l - f) // 2 - 1) if (l - f) // 2 >= 2 else 1
        a = rnd.randrange(-B * one, B * one + 1); b = rnd.randrange(-B * one, B * one + 1)      # scaled
        x, y = secfxp(a / one), secfxp(b / one)
        xi = secfxp(a // one)          # integral
        ops, chk = [], []
        def add(e, pred): ops.append(e); chk.append(pred)
        near = lambda num: (lambda v: v in (num // one, num // one + 1))
        add(x + y, lambda v: v == a + b); add(x - y, lambda v: v == a - b); add(-x, lambda v: v == -a)
        add(x * y, near(a * b)); add(x * 3, lambda v: v == 3 * a); add(xi * y, lambda v: v == (a // one) * b)
        add(x < y, lambda v: v == one * (a < b)); add(x == y, lambda v: v == one * (a == b)); add(x >= y, lambda v: v == one * (a >= b))
        add(rt.sgn(x), lambda v: v == one * ((a > 0) - (a < 0))); add(abs(x), lambda v: v == abs(a))
        add(rt.trunc(x), lambda v: v in (a >> f, (a >> f) + 1))
        add(rt.in_prod([x, y], [y, x]), near(2 * a * b)); add(rt.sum([x, y, xi]), lambda v: v == a + b + (a // one) * one)
        for z in rt.scalar_mul(x, [y, xi]): ops.append(z)
        chk += [near(a * b), near(a * (a // one) * one)]
        for z in rt.schur_prod([x, xi], [y, y]): ops.append(z)
        chk += [near(a * b), lambda v: v == (a // one) * b]
        add(rt.if_else(secfxp(1), x, y), lambda v: v == a); add(rt.min(x, y), lambda v: v == min(a, b))
        cv = rt.convert(secfxp(a // one), rt.SecInt(l))
        outs = await rt.output(ops, raw=True)
        cvo = await rt.output(cv)
        sgnd = lambda e: (e.value if e.value <= type(e).modulus // 2 else e.value - type(e).modulus)
        vals = [sgnd(o) for o in outs]
        got = [bool(c(v)) for c, v in zip(chk, vals)] + [cvo == a // one]
        want = [True] * len(got)
        flags = [getattr(o, 'integral', None) for o in ops]
        got.append(all(not (fl is True) or v % one == 0 for fl, v in zip(flags, vals)))      # C03 in the m-party setting
        want.append(True)
        sh = await rt.gather(ops)
        shares = [(type(s).modulus, s.value, o.value) for s, o in zip(sh, outs)]
        return got, want, shares, None, (a, b)
    return prog


def P_bit_ops(l):
    async def prog(rt, seed):
        rnd = pyrandom.Random(seed)
        secint = rt.SecInt(l)
        lo, hi = -(1 << (l - 1)), 1 << (l - 1)
        a = _pick(rnd, lo, hi); b = rnd.randrange(0, hi)
        x = secint(a)
        ops, exp = [], []
        bits = rt.to_bits(x)
        ops += list(bits); exp += [(a >> i) & 1 for i in range(l)]
        low = rt.to_bits(x, l // 2)
        ops += list(low); exp += [(a >> i) & 1 for i in range(l // 2)]
        ops.append(rt.from_bits(rt.to_bits(secint(b)))); exp.append(b)
        n = max(2, l // 2)
        u, w = rnd.randrange(1 << n), rnd.randrange(1 << n)
        s = rt.add_bits([secint((u >> i) & 1) for i in range(n)], [secint((w >> i) & 1) for i in range(n)])
        ops += list(s); exp += [((u + w) >> i) & 1 for i in range(n)]
        nn = 5
        j = rnd.randrange(nn)
        ops += list(rt.unit_vector(secint(j), nn)); exp += [int(i == j) for i in range(nn)]
        vec = [rnd.randrange(2) for _ in range(6)]
        ops.append(rt.find([secint(v) for v in vec], 1)); exp.append(vec.index(1) if 1 in vec else len(vec))
        ops.append(rt.find([secint(v) for v in vec], 0, e=-1)); exp.append(vec.index(0) if 0 in vec else -1)
        tz = rt.trailing_zeros(x)
        c = a & -a if a else 0
        # only correct up to and including the least significant 1
        nz = (c.bit_length() - 1) if a else l - 1
        ops += list(tz[:nz + 1]); exp += [(a >> i) & 1 for i in range(nz + 1)]
        if a or b: ops.append(rt.gcp2(x, secint(b))); exp.append(((a | b) & -(a | b)))
        outs = await rt.output(ops, raw=True)
        p = secint.field.modulus
        got = [o.value for o in outs]; want = [e % p for e in exp]
        sh = await rt.gather(ops)
        return got, want, [(p, s.value, e % p) for s, e in zip(sh, exp)], None, (a, b, u, w, j, vec)
    return prog


def P_convert_ops(l):
    async def prog(rt, seed):
        rnd = pyrandom.Random(seed)
        S, T = rt.SecInt(l), rt.SecInt(2 * l)
        F = rt.SecFxp(2 * l, l // 2)
        lo, hi = -(1 << (l - 1)), 1 << (l - 1)
        a = _pick(rnd, lo, hi)
        ops, exp = [], []
        ops.append(rt.convert(S(a), T)); exp.append((T.field.modulus, a))
        ops.append(rt.convert(T(a), S)); exp.append((S.field.modulus, a))
        ops.append(rt.convert(S(a), F)); exp.append((F.field.modulus, a << (l // 2)))
        ops.append(rt.convert(F(a), S)); exp.append((S.field.modulus, a))
        for z in rt.convert([S(a), S(-a if a > lo else 0)], T): ops.append(z)
        exp += [(T.field.modulus, a), (T.field.modulus, -a if a > lo else 0)]
        q = 101
        G = rt.SecFld(q)
        g = rnd.randrange(q)
        I32 = rt.SecInt(32)
        ops.append(rt.convert(G(g), I32)); exp.append((I32.field.modulus, g if not G.field.is_signed or g <= q // 2 else g - q))
        ops.append(rt.convert(I32(g % 50), G)); exp.append((q, g % 50))
        H = rt.SecFld(257)
        ops.append(rt.convert(G(g), H)); exp.append((257, (g if not G.field.is_signed or g <= q // 2 else g - q) % 257))
        outs = [await rt.output(o, raw=True) for o in ops]
        got = [o.value for o in outs]; want = [v % p for p, v in exp]
        sh = await rt.gather(ops)
        return got, want, [(p, s.value, v % p) for s, (p, v) in zip(sh, exp)], None, (a, g)
    return prog


def P_field_ops(l):
    async def prog(rt, seed):
        rnd = pyrandom.Random(seed)
        got, want, shares = [], [], []
        m = len(rt.parties)
        for q in (2, 3, 5, 7, 101, 4, 8, 9, 16, 27, 256):
            if q in (4, 8, 9, 16, 27, 256) and m >= q and rt.threshold:
                continue        # lifting of extension fields is an explicit TODO (assert) in _SecFld: outside the supported domain
            F = rt.SecFld(q)
            fld = F.field
            base = F.subfield or fld
            a, b = rnd.randrange(q), rnd.randrange(1, q)
            ea, eb = base(_elt(base, a)), base(_elt(base, b))
            x, y = F(ea) if F.subfield is None else F(_elt(base, a)), F(eb) if F.subfield is None else F(_elt(base, b))
            ops = [x + y, x - y, x * y, x / y, x ** 3, x == y, x != y, -x, rt.is_zero(x)]
            exp = [ea + eb, ea - eb, ea * eb, ea / eb, ea ** 3, base(int(ea == eb)), base(int(ea != eb)), -ea, base(int(ea == base(0)))]
            if fld.characteristic == 2 and F.subfield is None:
                ops += [x & y, x | y, x ^ y, ~x]
                ia, ib = int(ea), int(eb)
                exp += [base(_elt(base, ia & ib)), base(_elt(base, ia | ib)), base(_elt(base, ia ^ ib)), base(_elt(base, ia ^ (q - 1)))]
            outs = await rt.output(ops)
            got += [repr(o) + ':' + type(o).__name__ for o in outs]
            want += [repr(e) + ':' + type(e).__name__ for e in exp]
            sh = await rt.gather(ops)
            shares += [(type(s).modulus, s.value, None) for s in sh]
        return got, want, shares, None, seed
    return prog


def _elt(field, n):
    """integer encoding -> constructor argument of a field element"""
    if isinstance(field.modulus, int): return n
    from mpyc import gfpx
    return type(field.modulus)(n)


def P_random_ops(l):
    async def prog(rt, seed):
        import mpyc.random as R
        rnd = pyrandom.Random(seed)
        secint = rt.SecInt(l)
        n = rnd.choice([2, 3, 5, 6, 7])
        ops = dict(randrange=R.randrange(secint, n), randint=R.randint(secint, -2, n), ruv=R.random_unit_vector(secint, n),
                   perm=R.random_permutation(secint, n), derange=R.random_derangement(secint, max(n, 2)), bits=R.getrandbits(secint, 3),
                   sample=R.sample(secint, list(range(10, 10 + n)), 2), choice=R.choice(secint, [4, 5, 6]),
                   shuffle=None)
        lst = [secint(i) for i in range(n)]
        R.shuffle(secint, lst)
        ops['shuffle'] = lst
        out = {}
        for k, v in ops.items():
            out[k] = await rt.output(v)
        ok = [0 <= out['randrange'] < n, -2 <= out['randint'] <= n, sorted(out['ruv']) == [0] * (n - 1) + [1], sorted(out['perm']) == list(range(n)),
              sorted(out['derange']) == list(range(max(n, 2))) and all(v != i for i, v in enumerate(out['derange'])), 0 <= out['bits'] < 8,
              len(set(out['sample'])) == 2 and all(10 <= v < 10 + n for v in out['sample']), out['choice'] in (4, 5, 6), sorted(out['shuffle']) == list(range(n))]
        vals = [out[k] for k in ops]
        flat = []
        for k in ops:
            v = ops[k]
            flat += list(v) if isinstance(v, list) else [v]
        sh = await rt.gather(flat)
        shares = [(type(s).modulus, s.value, None) for s in sh]
        # every party must open the same values: include them in got
        return [ok, vals], [[True] * len(ok), vals], shares, None, (seed, n)
    return prog


def P_seclist_ops(l):
    async def prog(rt, seed):
        rnd = pyrandom.Random(seed)
        secint = rt.SecInt(l)
        n = rnd.choice([1, 2, 3, 4])
        data = [rnd.randrange(-5, 6) for _ in range(n)]
        L = rt.seclist(data, secint); P = list(data)
        i = rnd.randrange(n)
        got, want = [], []
        async def snap():
            got.append(await rt.output(list(L))); want.append(list(P))
        g = L[secint(i)]; got.append(await rt.output(g)); want.append(P[i])
        L[secint(i)] = secint(9); P[i] = 9; await snap()
        L.insert(secint(i), secint(7)); P.insert(i, 7); await snap()
        del L[secint(i)]; del P[i]; await snap()
        L.append(secint(3)); P.append(3); await snap()
        v = L.pop(secint(0)); w = P.pop(0); got.append(await rt.output(v)); want.append(w); await snap()
        L.extend([secint(1), secint(1)]); P.extend([1, 1]); await snap()
        got.append(await rt.output(L.count(secint(1)))); want.append(P.count(1))
        got.append(await rt.output(L.contains(secint(9)))); want.append(int(9 in P))
        got.append(await rt.output(L.find(secint(1)))); want.append(P.index(1))
        L.sort(); P.sort(); await snap()
        L2 = L + L; got.append(await rt.output(list(L2))); want.append(P + P)
        got.append(await rt.output(L < L2)); want.append(int(P < P + P))
        sh = await rt.gather(list(L))
        p = secint.field.modulus
        return got, want, [(p, s.value, e % p) for s, e in zip(sh, P)], None, (data, i)
    return prog


def P_gcd_ops(l):
    async def prog(rt, seed):
        import math
        rnd = pyrandom.Random(seed)
        secint = rt.SecInt(l)
        L = l // 2
        a = rnd.randrange(-(1 << (L - 1)) + 1, 1 << (L - 1)); b = rnd.randrange(-(1 << (L - 1)) + 1, 1 << (L - 1))
        x, y = secint(a), secint(b)
        ops = [rt.gcd(x, y, l=L), rt.lcm(x, y, l=L)]
        g = math.gcd(a, b)
        exp = [g, abs(a * b) // g if g else 0]
        ge = rt.gcdext(x, y, l=L)
        outs = await rt.output(ops + list(ge))
        gg, s, tt = outs[2:]
        got = outs[:2] + [gg == g and s * a + tt * b == g]
        want = exp + [True]
        if b > 1 and math.gcd(a, b) == 1:
            inv = await rt.output(rt.inverse(x, secint(b), l=L))
            got.append((inv * a) % b == 1 % b and 0 <= inv < b); want.append(True)
        sh = await rt.gather(ops)
        p = secint.field.modulus
        return got, want, [(p, s_.value, e % p) for s_, e in zip(sh, exp)], None, (a, b)
    return prog


def P_recip_retry(l):
    """reciprocal / division in small secure fields with the low-probability event FORCED that the first blinding factor is 0 (the protocol must
    retry with a fresh one): every party's first _random call inside each reciprocal returns a sharing of 0"""
    async def prog(rt, seed):
        import asyncio
        rnd = pyrandom.Random(seed)
        got, want = [], []
        m = len(rt.parties)
        real = rt._random
        for q in (5, 7, 11, 101, 8, 16, 27):
            if q in (8, 16, 27) and m >= q and rt.threshold: continue
            if m >= q: continue                       # prime fields are lifted for m >= q: the forced zero would have to live in the lifted field (covered by q > m)
            F = rt.SecFld(q); fld = F.field
            a = rnd.randrange(1, q); b = rnd.randrange(q)
            ea, eb = fld(_elt(fld, a)), fld(_elt(fld, b))
            x, y = F(ea), F(eb)
            calls = [0]
            def forced(sftype, bound=None, calls=calls, fld=fld):
                calls[0] += 1
                if calls[0] == 1 and bound is None:
                    if rt.options.no_prss:
                        f = asyncio.Future(loop=rt._loop); f.set_result([fld(0)]); return f
                    return fld(0)
                return real(sftype, bound)
            rt._random = forced
            try:
                r1 = await rt.output(rt.reciprocal(x))
                calls[0] = 0
                r2 = await rt.output(y / x)
            finally:
                rt._random = real
            got += [repr(r1), repr(r2)]; want += [repr(1 / ea), repr(eb / ea)]
        return got, want, [], None, seed
    return prog


def P_pipeline(l):
    """Pipelined program (C08): operations are STARTED on operands that have not arrived yet (inputs dealt by different parties), the main program then
    awaits something unrelated and goes on issuing operations, and only at the end everything is opened.  Under an asynchronous schedule the
    coroutines of the pending operations are resumed at different points of the main program in different parties: any coroutine that takes its
    message labels late (without an own program counter) then desynchronises.  No oracle: the result is compared across schedules and parties."""
    async def prog(rt, seed):
        rnd = pyrandom.Random(seed)
        m = len(rt.parties)
        secint = rt.SecInt(l + 8); secfxp = rt.SecFxp(2 * l, l // 2 + 2)
        v = [rnd.randrange(-20, 21) for _ in range(6)]
        # operands dealt by three different parties (their shares arrive at different times)
        a0 = rt.input([secint(v[0]), secint(v[1])], senders=0)
        b0 = rt.input([secint(v[2]), secint(v[3])], senders=m - 1)
        c0 = rt.input([secfxp(v[4] / 4), secfxp(v[5] / 8), secfxp(1.5), secfxp(-0.25)], senders=(m // 2))
        pending = []
        pending.append(rt.gauss([[c0[0], c0[1]], [c0[2], c0[3]]], c0[0], [c0[1], c0[2]], [c0[3], c0[0]]))      # matrix (list of lists)
        pending.append(rt.matrix_prod([[a0[0], a0[1]]], [[b0[0]], [b0[1]]]))
        pending.append([rt.in_prod(a0, b0), rt.prod([a0[0], b0[0], a0[1]]), rt.sgn(a0[0] - b0[1]), rt.lsb(b0[0]), a0[1] % 3])
        pending.append(rt.scalar_mul(c0[2], [c0[0], c0[1]]) + rt.schur_prod([c0[0], c0[1]], [c0[2], c0[3]]))
        pending.append([rt.trunc(c0[0] * 8), rt.if_else(a0[0] < b0[0], a0[1], b0[1]), rt.max(a0 + b0), rt.min(c0)])
        # the main program awaits something unrelated in the middle ...
        mid = await rt.output(a0[0] + b0[0])
        # ... and goes on issuing operations, among them inputs and outputs addressed to single parties
        d0 = rt.input(secint(mid % 7), senders=(1 % m))
        pending.append([d0 * a0[0], rt.convert(d0, secfxp) * c0[1], rt.is_zero(d0 - (mid % 7))])
        pending.append(rt.sorted([a0[0], b0[0], a0[1], b0[1], d0]))
        one = await rt.output(d0 + 1, receivers=0)
        pending.append(rt.to_bits(b0[1] + 64, 8)[:3] + [rt.from_bits(rt.to_bits(a0[0] + 64, 8))])
        flat = []
        def walk(x):
            if isinstance(x, (list, tuple)):
                for y in x: walk(y)
            else: flat.append(x)
        walk(pending)
        ints = [z for z in flat if isinstance(z, secint)]; fxps = [z for z in flat if isinstance(z, secfxp)]          # output assumes one type per list
        assert len(ints) + len(fxps) == len(flat)
        outs = list(await rt.output(ints)) + list(await rt.output(fxps))
        got = [mid, None if one is None else int(one)] + [float(o) if isinstance(o, float) else int(o) for o in outs]
        return [got[0]] + got[2:], [got[0]] + got[2:], [], None, tuple(v)          # party 0 alone receives `one`: not part of the common result
    return prog


PROGRAMS = dict(pipeline=P_pipeline, recip_retry=P_recip_retry, fxp_ops=P_fxp_ops, bit_ops=P_bit_ops, convert_ops=P_convert_ops, field_ops=P_field_ops, random_ops=P_random_ops,
                seclist_ops=P_seclist_ops, gcd_ops=P_gcd_ops)
