"""Engine B, mp mode: m REAL Runtime objects in one process on ONE asyncio event loop (real asynchronous mode: real Tasks,
real _ProgramCounterWrapper labels).  The module-global `runtime` of the eight mpyc modules is a proxy that resolves
through a ContextVar, so each party's tasks see their own Runtime.  parties[j].protocol is a ghost network object.

Values are either plain ints (concrete runs, real or seeded randomness) or polynomial normal forms (class Poly via
PolyInt) which decide "the m results are the values g(1..m) of ONE polynomial g of degree <= d with g(0) = v" exactly.
"""
import sys, asyncio, contextvars, argparse, itertools, traceback, random as pyrandom

_state = {}
CUR = contextvars.ContextVar('cur_rt')


class RTProxy:
    def __getattr__(self, n): return getattr(CUR.get(), n)
    def __setattr__(self, n, v): setattr(CUR.get(), n, v)


def modules():
    if 'mods' not in _state:
        sys.argv = [sys.argv[0] if sys.argv else 'x', '--no-log']
        import mpyc
        from mpyc import runtime as rtmod, asyncoro, sectypes, mpctools, seclists, secgroups, thresha, finfields
        import mpyc.random, mpyc.statistics
        mods = dict(rtmod=rtmod, asyncoro=asyncoro, sectypes=sectypes, mpctools=mpctools, seclists=seclists, secgroups=secgroups,
                    thresha=thresha, finfields=finfields, random=mpyc.random, statistics=mpyc.statistics)
        try:
            import mpyc.secpols
            mods['secpols'] = mpyc.secpols
        except Exception:
            pass
        _state['mods'] = mods
        _state['base_options'] = rtmod.mpc.options
        proxy = RTProxy()
        for k in ('asyncoro', 'sectypes', 'mpctools', 'seclists', 'secgroups', 'random', 'statistics', 'secpols'):
            if k in mods: mods[k].runtime = proxy
    return _state['mods']


class DuplicateLabel(Exception):
    pass


class Net:
    """ghost network: per directed connection, messages keyed by label"""
    def __init__(self, schedule=None):
        self.sent = []        # (src, dst, pc, payload) in send order
        self.box = {}         # delivered but not yet received
        self.wait = {}        # receive posted, message not yet sent
        self.received = []    # (src, dst, pc)
        self.errors = []
        # delivery schedule (C08): None = every message is delivered at the moment it is sent; otherwise a random.Random: sent messages wait in a
        # FIFO queue per directed connection and are delivered one at a time, from a randomly chosen connection, between steps of the event loop
        self.schedule = schedule
        self.queues = {}      # (src, dst) -> [(pc, payload)] in send order

    def deliver(self, src, dst, pc, payload):
        key = (src, dst, pc)
        if any(k == key for k in self.received) or key in self.box:
            self.errors.append(('duplicate-label', key)); raise DuplicateLabel(key)
        if key in self.wait:
            self.received.append(key)
            self.wait.pop(key).set_result(payload)
        else:
            self.box[key] = payload

    def pending(self):
        return sum(len(q) for q in self.queues.values())

    def pump(self, n=1):
        """deliver up to n queued messages: each time the head of a randomly chosen nonempty connection queue (FIFO per connection)"""
        done = 0
        while done < n:
            live = sorted(k for k, q in self.queues.items() if q)
            if not live: break
            src, dst = self.schedule.choice(live)
            pc, payload = self.queues[(src, dst)].pop(0)
            self.deliver(src, dst, pc, payload)
            done += 1
        return done

    def leftovers(self):
        return dict(unreceived=sorted((k for k in self.box), key=repr), unmatched_receives=sorted((k for k in self.wait), key=repr))


class GhostProto:
    """protocol object held by party `me` for its connection with `peer`"""
    def __init__(self, net, me, peer, loop):
        self.net, self.me, self.peer, self.loop = net, me, peer, loop
        self.nbytes_sent = 0

    def send(self, pc, payload):
        key = (self.me, self.peer, pc)
        self.net.sent.append((self.me, self.peer, pc, payload))
        if self.net.schedule is not None:
            self.net.queues.setdefault((self.me, self.peer), []).append((pc, payload))
            return
        if any(k == key for k in self.net.received) or key in self.net.box:
            self.net.errors.append(('duplicate-label', key)); raise DuplicateLabel(key)
        if key in self.net.wait:
            self.net.received.append(key)
            self.net.wait.pop(key).set_result(payload)
        else:
            self.net.box[key] = payload

    def receive(self, pc):
        key = (self.peer, self.me, pc)
        if key in self.net.box:
            self.net.received.append(key)
            return self.net.box.pop(key)
        if key in self.net.wait:
            self.net.errors.append(('duplicate-receive', key)); raise DuplicateLabel(key)
        f = asyncio.Future(loop=self.loop); self.net.wait[key] = f
        return f

    def close_connection(self): pass


def clear_caches():
    M = modules()
    M['thresha']._recombination_vector.cache_clear(); M['thresha']._f_S_i.cache_clear()
    for nm in ('_SecFld', '_SecInt', '_SecFxp', '_SecFlt'):        # secure types depend on the runtime (m, k) they were made under
        c = getattr(M['sectypes'], nm, None)
        if c is not None and hasattr(c, 'cache_clear'): c.cache_clear()


def make_parties(m, t, no_prss=False, k=8, keys=None, schedule=None):
    """m real Runtimes with ghost network; PRSS keys placed by hand (the handshake itself is C16's subject)."""
    M = modules(); rtmod = M['rtmod']
    loop = asyncio.new_event_loop(); asyncio.set_event_loop(loop)
    net = Net(schedule); rts = []
    base = _state['base_options']
    if keys is None:
        keys = {S: bytes([i % 251 + 1] * 16) for i, S in enumerate(itertools.combinations(range(m), m - t))}
    for i in range(m):
        opt = argparse.Namespace(**vars(base))
        opt.threshold = t; opt.no_async = False; opt.sec_param = k; opt.no_log = True
        parties = [rtmod.Party(j, 'h', 0) for j in range(m)]
        opt.no_prss = True          # avoid key generation in the setter; keys are set below
        rt = rtmod.Runtime(i, parties, opt)
        opt.no_prss = no_prss
        # the start-up option and the live threshold are different things (a program may set mpc.threshold later): make them differ,
        # so that code reading options.threshold instead of self.threshold is exposed
        opt.threshold = (m - 1) // 2 if t != (m - 1) // 2 else 0
        rt._prss_keys = {S: kk for S, kk in keys.items() if i in S}
        for j in range(m):
            if j != i: parties[j].protocol = GhostProto(net, i, j, loop)
        rts.append(rt)
    CUR.set(rts[0])
    return loop, net, rts


class PartyFailure(Exception):
    pass


BLOCKED = 'BLOCKED'


def run_all(loop, rts, prog, max_steps=2_000_000, allow_blocked=False, net=None):
    """run prog(rt) for all parties; returns list of results.  Steps the loop manually: detects deadlock
    (no ready handle while some party unfinished) and captures exceptions inside any coroutine."""
    tasks = []
    errors = []

    def handler(lp, context):
        exc = context.get('exception')
        errors.append((context.get('message'), exc, ''.join(traceback.format_exception(exc)) if exc else ''))
    loop.set_exception_handler(handler)
    for rt in rts:
        rt._loop = loop
        ctx = contextvars.copy_context()
        ctx.run(CUR.set, rt)
        tasks.append(ctx.run(lambda rt=rt: loop.create_task(prog(rt))))
    steps = 0
    while not all(t.done() for t in tasks):
        if errors and not (allow_blocked == 'continue'):
            break
        if net is not None and net.schedule is not None and net.pending():
            # delivery schedule: between two steps of the event loop deliver a random number of queued messages (at least one if nothing else can run)
            idle = not loop._ready and not loop._scheduled
            try:
                net.pump(1 if idle else net.schedule.choice((0, 0, 0, 1, 1, 2, 4)))
            except DuplicateLabel as e:
                errors.append(('duplicate label', e, f'DuplicateLabel{e}'))
        if not loop._ready and not loop._scheduled and not (net is not None and net.schedule is not None and net.pending()):
            pend = [i for i, t in enumerate(tasks) if not t.done()]
            if allow_blocked:
                out = [BLOCKED if not t.done() else (t.result() if t.exception() is None else ('EXC', repr(t.exception()))) for t in tasks]
                for t in tasks: t.cancel()
                _drain(loop)
                return out
            for t in tasks: t.cancel()
            _drain(loop)
            raise PartyFailure(f'deadlock: parties {pend} wait for messages that are never sent')
        loop.call_soon(loop.stop); loop.run_forever()
        steps += 1
        if steps > max_steps:
            raise PartyFailure('step budget exhausted')
    if errors and allow_blocked:
        out = [BLOCKED if not t.done() else (t.result() if t.exception() is None else ('EXC', repr(t.exception()))) for t in tasks]
        for t in tasks: t.cancel()
        _drain(loop)
        return out
    if errors:
        for t in tasks: t.cancel()
        _drain(loop)
        raise PartyFailure('exception in a party coroutine: ' + (errors[0][2] or str(errors[0][0]))[-1500:])
    out = []
    for i, t in enumerate(tasks):
        if t.exception() is not None:
            e = t.exception()
            raise PartyFailure(f'party {i} raised {type(e).__name__}: {e}\n' + ''.join(traceback.format_exception(e))[-1500:])
        out.append(t.result())
    _drain(loop)
    return out


def _drain(loop):
    for _ in range(50):
        loop.call_soon(loop.stop); loop.run_forever()
        if not loop._ready: break


# ------------------------------------------------------------------ polynomial normal forms
class Poly:
    __slots__ = ('d',)

    def __init__(self, d): self.d = {k: v for k, v in d.items() if v}

    @staticmethod
    def const(c): return Poly({(): c})

    @staticmethod
    def var(name): return Poly({((name, 1),): 1})

    def __add__(a, b):
        d = dict(a.d)
        for k, v in b.d.items(): d[k] = d.get(k, 0) + v
        return Poly(d)

    def __neg__(a): return Poly({k: -v for k, v in a.d.items()})
    def __sub__(a, b): return a + (-b)

    def __mul__(a, b):
        d = {}
        for k1, v1 in a.d.items():
            for k2, v2 in b.d.items():
                mm = dict(k1)
                for x, e in k2: mm[x] = mm.get(x, 0) + e
                k = tuple(sorted(mm.items())); d[k] = d.get(k, 0) + v1 * v2
        return Poly(d)

    def mod(a, p): return Poly({k: v % p for k, v in a.d.items()})
    def is_zero_mod(a, p): return all(v % p == 0 for v in a.d.values())
    def vars(a): return {x for k in a.d for x, _ in k}
    def __repr__(a): return ' + '.join(f'{v}*{"*".join(f"{x}^{e}" if e > 1 else x for x, e in k) or "1"}' for k, v in sorted(a.d.items())) or '0'

    def witness(a, p):
        """assignment of the variables under which a != 0 mod p (a not identically zero mod p): try small values"""
        vs = sorted(a.vars())
        rnd = pyrandom.Random(1)
        for _ in range(200):
            asg = {v: rnd.randrange(p) for v in vs}
            if a.eval(asg) % p: return asg
        return None

    def eval(a, asg):
        s = 0
        for k, v in a.d.items():
            t = v
            for x, e in k: t *= asg[x] ** e
            s += t
        return s


POISON = 0xDEADBEEFCAFE


class PolyInt(int):
    """int subclass carrying a polynomial normal form (mod P once reduced)"""
    def __new__(cls, poly, P=None):
        o = int.__new__(cls, POISON); o.p = poly; o.P = P; return o

    @staticmethod
    def of(x): return x if isinstance(x, PolyInt) else PolyInt(Poly.const(int(x)))

    def _b(s, o, f):
        if not isinstance(o, int): return NotImplemented
        o = PolyInt.of(o); P = s.P or o.P
        r = f(s.p, o.p)
        return PolyInt(r.mod(P) if P else r, P)

    def __add__(s, o): return s._b(o, lambda a, b: a + b)
    __radd__ = __add__
    def __sub__(s, o): return s._b(o, lambda a, b: a - b)
    def __rsub__(s, o): return PolyInt.of(o)._b(s, lambda a, b: a - b) if isinstance(o, int) else NotImplemented
    def __mul__(s, o): return s._b(o, lambda a, b: a * b)
    __rmul__ = __mul__
    def __neg__(s): return PolyInt(-s.p, s.P)
    def __pos__(s): return s
    def __lshift__(s, k): return s * (1 << int(k))

    def __mod__(s, m):
        if isinstance(m, PolyInt): raise RuntimeError('symbolic modulus')
        if s.P not in (None, m): raise RuntimeError('mixed moduli')
        return PolyInt(s.p.mod(m), m)

    def __bool__(s): raise RuntimeError('branch on a symbolic share/value')
    def __eq__(s, o): raise RuntimeError('== on a symbolic share/value')
    def __lt__(s, o): raise RuntimeError('< on a symbolic share/value')
    __le__ = __gt__ = __ge__ = __lt__
    def __hash__(s): return id(s)
    def __index__(s): raise RuntimeError('concretised')
    def __int__(s): raise RuntimeError('concretised')
    def to_bytes(s, *a, **k): raise RuntimeError('concretised')
    def bit_length(s): raise RuntimeError('concretised')
    def __repr__(s): return f'PolyInt({len(s.p.d)} terms mod {s.P})'


def uninstall_symbolic():
    M = modules(); thresha, finfields, rtmod = M['thresha'], M['finfields'], M['rtmod']
    sv = _state.get('saved')
    if not sv: return
    thresha.secrets, rtmod.secrets = sv['tsec'], sv['rsec']
    thresha.PRF.__call__ = sv['prf']
    finfields.FiniteFieldElement.to_bytes = sv['to_bytes']; finfields.FiniteFieldElement.from_bytes = sv['from_bytes']
    _state['saved'] = None


def install_seeded(seed):
    """concrete runs: reproducible randomness (dealer coefficients, masks) from a seeded generator"""
    M = modules(); thresha, rtmod = M['thresha'], M['rtmod']
    if not _state.get('saved_sec'):
        _state['saved_sec'] = (thresha.secrets, rtmod.secrets)
    rnd = pyrandom.Random(seed)

    class _Secrets:
        randbelow = staticmethod(lambda n: rnd.randrange(n))
        randbits = staticmethod(lambda k: rnd.getrandbits(k))
        token_bytes = staticmethod(lambda n: bytes(rnd.getrandbits(8) for _ in range(n)))
    thresha.secrets = _Secrets; rtmod.secrets = _Secrets


def install_symbolic():
    """stubs needed when PolyInt values flow through the real primitives: randomness, marshalling"""
    M = modules(); thresha, finfields, rtmod = M['thresha'], M['finfields'], M['rtmod']
    if not _state.get('saved'):
        _state['saved'] = dict(tsec=thresha.secrets, rsec=rtmod.secrets, prf=thresha.PRF.__call__,
                               to_bytes=finfields.FiniteFieldElement.__dict__['to_bytes'],
                               from_bytes=finfields.FiniteFieldElement.__dict__['from_bytes'])
    cnt = itertools.count()
    log = []

    def mk(prefix):
        class _Secrets:
            @staticmethod
            def randbelow(n):
                name = f'{prefix}{next(cnt)}'; log.append((name, n)); return PolyInt(Poly.var(name))
            @staticmethod
            def randbits(k):
                name = f'{prefix}{next(cnt)}'; log.append((name, 1 << k)); return PolyInt(Poly.var(name))
            @staticmethod
            def token_bytes(n): return bytes(n)
        return _Secrets
    thresha.secrets = mk('c'); rtmod.secrets = mk('r')      # c: dealer coefficients (thresha), r: values drawn by runtime.py
    memo = {}

    def prf_call(prf, s, n=None):
        key = (prf.key, prf.max, bytes(s), n)
        if key not in memo:
            n_ = 1 if n is None else n
            memo[key] = [PolyInt(Poly.var(f'prf{len(memo)}_{j}')) for j in range(n_)]
            log.append((f'prf{len(memo) - 1}', prf.max, prf.key))
        v = memo[key]
        return v[0] if n is None else list(v)
    thresha.PRF.__call__ = prf_call
    finfields.FiniteFieldElement.to_bytes = classmethod(lambda cls, x: ('BYTES', list(x)))
    finfields.FiniteFieldElement.from_bytes = classmethod(lambda cls, data: list(data[1]))
    return log, memo


# ------------------------------------------------------------------ oracle: degree-d sharing test (written for the check)
def lagrange_at(xs, x, p):
    out = []
    for i, xi in enumerate(xs):
        n = d = 1
        for j, xj in enumerate(xs):
            if i != j: n = n * (x - xj) % p; d = d * (xi - xj) % p
        out.append(n * pow(d, -1, p) % p)
    return out


def sharing_defect(shares, d, p, value=None):
    """shares[i] = share of party i (int or Poly).  None if they are g(1..m) for one polynomial g of degree <= d (and g(0) == value
    when value is given); else a description of the first defect.  Interpolates through parties 0..d and compares the rest."""
    m = len(shares)
    as_poly = lambda s: s if isinstance(s, Poly) else s.p if isinstance(s, PolyInt) else Poly.const(int(s))
    sh = [as_poly(s) for s in shares]
    if d + 1 > m:
        return None if value is None else None
    xs = list(range(1, d + 2))
    targets = [(j + 1, sh[j], f'share of party {j}') for j in range(d + 1, m)]
    if value is not None: targets.append((0, as_poly(value), 'secret (value at 0)'))
    for x, target, what in targets:
        lam = lagrange_at(xs, x, p)
        acc = Poly({})
        for l_, s in zip(lam, sh[:d + 1]): acc = acc + Poly.const(l_) * s
        diff = (acc - target).mod(p)
        if not diff.is_zero_mod(p):
            return f'{what} is not on the degree-{d} polynomial through parties 0..{d} (difference {str(diff)[:120]})'
    return None
