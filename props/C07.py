"""C07 - input, output and transfer reach exactly the designated parties (DESIGN §5 C07)."""
import time
from lib.common import run_tasks, finish
from props import _mp


def run(tier, seed):
    t0 = time.time()
    obs = run_tasks(_mp.routing(tier))
    return finish('C07', tier, seed, obs, 'other', t0,
                  explanation='contracts of transfer / input / output evaluated with ALL m parties running the real coroutines in one process (mp mode): for every '
                  'enumerated sender set, receiver set and sender/receiver graph (dict and pair-list form, int arguments), each receiver obtains exactly the '
                  'objects of its designated senders in sender order, parties without designated sender obtain no value (None or []), all receivers of an '
                  'output obtain the same value, input opens to the sender\'s value; plus network balance. Bounded in (m,t) and in the enumerated sets.',
                  assumptions=_mp.MP_ASSUME + ['"obtain None" read as "obtain no value": None, or [] for a list of senders'], trusted_base=_mp.MP_TRUST)
