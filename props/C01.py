"""C01 - secure integer operations exact in every party configuration (DESIGN §5 C01)."""
import time
from lib.common import run_tasks, finish
from sx import mpinst

CORE = ['sgn', 'sgn_LT', 'sgn_EQ', 'lt', 'le', 'gt', 'ge', 'eq', 'ne', 'ltc', 'abs', 'lsb', 'mod2', 'is_zero', 'mod3', 'mod4', 'mod5',
        'mod7', 'mod8', 'floordiv3', 'floordiv4', 'floordiv5', 'min2', 'max2']
LIGHT = ['add', 'sub', 'mul', 'neg', 'pos', 'addc', 'rsubc', 'mulc', 'rmulc', 'sq', 'pow3', 'pow5', 'pow0', 'if_else', 'if_else_method']
LIST_OPS = ['sum', 'sum_start', 'prod', 'all', 'any', 'in_prod', 'min', 'max', 'min_max', 'argmin', 'argmax']


def value_tasks(tier):
    T = []
    def vi(name, params, k, no_prss, func, bound):
        T.append(('sx.tasks', 'run_instance', ('sx.protocols', name, params, dict(k=k, no_prss=no_prss), func, bound)))
    grids = [(4, 2, False), (4, 2, True), (3, 3, False)] if tier == 'quick' else \
            [(l, k, np_) for l in (2, 3, 4, 5, 6) for k in (1, 2, 3, 8) for np_ in (False, True) if (l, k) in ((2, 1), (3, 3), (4, 2), (4, 8), (5, 2), (6, 3), (6, 1))]
    for l, k, np_ in grids:
        for op in CORE:
            b = int(op[-1]) if op[-1].isdigit() else 0
            if b and b >= (1 << (l - 1)): continue
            if l >= 6 and op in ('min2', 'max2'): continue          # 128 paths with a nonlinear selection each: 90 s queries go unknown on a loaded machine (l <= 5 covered)
            vi('int_op', dict(l=l, op=op), k, np_, f'mpyc.runtime.Runtime({op})', f'l={l}, k={k}; all l-bit values, all randomness allowed by the stubs; rejection loops cut at 2 retries')
    for l, k, np_ in grids[:2]:
        for op in LIGHT:
            vi('int_op', dict(l=l, op=op), k, np_, f'mpyc.runtime.Runtime({op})', f'l={l}, k={k}; all l-bit values')
        for b in ((3, 4, 5) if tier == 'quick' else (2, 3, 4, 5, 6, 7)):
            vi('divmod', dict(l=l, b=b), k, np_, 'mpyc.sectypes.SecureInteger.__divmod__', f'l={l}, k={k}, divisor {b}')
        for lst in (False, True):
            vi('if_swap', dict(l=l, lst=lst), k, np_, 'mpyc.runtime.Runtime.if_swap', f'l={l}')
        vi('matrix_prod', dict(l=l), k, np_, 'mpyc.runtime.Runtime.matrix_prod', f'l={l}, 2x2')
        vi('eq_public', dict(l=l), k, np_, 'mpyc.runtime.Runtime.eq_public', f'l={l}')
    l, k = (5, 2)
    for n in ((2, 3, 4) if tier == 'quick' else (2, 3, 4, 5, 6, 8)):
        for op in LIST_OPS:
            if op in ('in_prod',) and n < 2: continue
            vi('list_op', dict(l=l, op=op, n=n), k, False, f'mpyc.runtime.Runtime.{op}', f'l={l}, n={n}; comparisons replaced by the sgn contract')
    return T


def mp_tasks(tier):
    T = []
    for m, t in mpinst.configs(tier):
        for np_ in (False, True):
            T.append(('sx.mpinst', 'sym_primitives', (m, t, np_)))
            seeds = list(range(1, 4 if tier == 'quick' else 13))
            T.append(('sx.mpinst', 'concrete_program', (m, t, np_, 'int_ops', 6, 30, seeds)))
            if tier != 'quick':
                T.append(('sx.mpinst', 'concrete_program', (m, t, np_, 'int_ops', 16, 30, seeds[:6])))
    if tier == 'quick':          # cheap: the two configurations with comb(m,t) well above t+1 also in the quick tier
        for m, t in ((6, 2), (7, 3)):
            for np_ in (False, True):
                T.append(('sx.mpinst', 'concrete_program', (m, t, np_, 'int_ops', 6, 30, [1, 2])))
    return T


def run(tier, seed):
    t0 = time.time()
    tasks = value_tasks(tier) + mp_tasks(tier)
    try:
        from contracts import runtime_native as RN
        tasks += RN.tasks(tier, 'C01')
    except ImportError:
        pass
    obs = run_tasks(tasks)
    return finish('C01', tier, seed, obs, 'other', t0,
                  explanation='contract verification, bounded (B): (a) value layer - every secure-integer function of mpyc/runtime.py is executed for real '
                  'under CPython on SYMBOLIC l-bit inputs and symbolic randomness (engine symx: SymInt proxies, z3), callees of the share layer replaced by '
                  'contract stubs, result compared with Python int semantics on every path; a ghost sharing degree enforces reshare/threshold discipline; '
                  '(b) share layer - input/_distribute, mul+_reshare, output, _randoms run by all m parties at once on symbolic shares (polynomial normal '
                  'forms decide degree-t sharings exactly), plus concrete m-party runs of all operations with ghost checks of every output/_reshare call. '
                  'Bounded in l, k, (m,t), list length; complete over values inside each instance.',
                  assumptions=['contract stubs of random_bits / is_zero_public in value mode (each verified separately in mp mode / by enumeration)',
                               'event r = 0 of the multiplicative blinding in is_zero_public excluded (documented "with high probability"); concrete m-party runs use k = 30 so that this event has probability < 2^-36 per call (with k = 4 it was observed once in ~600 calls and is not a defect)',
                               'rejection-sampling loops explored up to 2 retries', 'Python int = mathematical integer',
                               'PRF outputs are arbitrary values in range(bound), equal for equal (key, bound, input)',
                               'mp mode: one event loop, one schedule; schedules are not enumerated (C08 is not claimed)'],
                  trusted_base=['z3 5.1', 'CPython 3.12', 'sx/sym.py proxies (conformance-tested against native runs in thorough tier)'])
