"""C09 - every message is labelled uniquely and consumed exactly once (partial: DESIGN §5 C09)."""
import time
from lib.common import run_tasks, finish
from props import _mp


def run(tier, seed):
    t0 = time.time()
    tasks = _mp.sym(tier) + _mp.concrete(tier) + _mp.routing(tier)
    try:
        from contracts import asyncoro as AC
        tasks += AC.tasks(tier, 'C09')
    except ImportError:
        pass
    obs = run_tasks(tasks)
    obs = [o for o in obs if not o.name.startswith(('dealing:', 'wire:', '_randoms'))]
    return finish('C09', tier, seed, obs, 'other', t0,
                  explanation='per-primitive and per-program label discipline on a ghost network with all m parties running the real code: for every ordered pair '
                  '(i,j) every label is sent at most once and received at most once (a duplicate raises in the ghost network), after all parties finished nothing '
                  'is left unreceived and no receive is left unmatched, and each party\'s (_pc_level, program-counter depth) is back to (0, 0) - for transfer, '
                  'input, output, _reshare, _randoms and ~150 composite operations. The buffer discipline of MessageExchanger (pop/insert per label) is the '
                  'engine-A contract of data_received/receive (see C10). Global label uniqueness across a whole run (hash collisions of program-counter hops) '
                  'is probabilistic and whole-history: assumed, not decided.',
                  assumptions=_mp.MP_ASSUME + ['_hop never collides along a run (probabilistic, whole-program): not decided'], trusted_base=_mp.MP_TRUST)
