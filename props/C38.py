"""C38 - secure polynomial arithmetic (mpyc/secpols.py, NumPy code path) against the plain polynomials of mpyc/gfpx.py."""
import time
from lib.common import run_tasks, finish

MOD = 'contracts.secpols_native'
# number of slices of the input domain of the heavier natives (default 1), quick tier; thorough: x3
SLICES = {'divmod': 4, 'compare': 4, 'length_public': 4, 'powmod': 4, 'gcd': 3, 'is_irreducible': 2, 'gcdext': 2, 'invert': 2}


def run(tier, seed):
    t0 = time.time()
    import contracts.secpols_native as M
    small = [n for n in M.NATIVE if n not in SLICES and n not in M.HANG_NATIVES]
    tasks = []
    for name in sorted(SLICES, key=lambda n: -SLICES[n]):          # heavy ones first: balanced pool
        k = SLICES[name] * (1 if tier == 'quick' else 3)
        tasks += [(MOD, 'run_slice', (name, tier, i, k)) for i in range(k)]
    tasks += [(MOD, 'run_group', ([n], tier)) for n in M.HANG_NATIVES]          # each case of these waits for the call limit
    tasks += [(MOD, 'run_group', (small[i::4], tier)) for i in range(4)]
    obs = run_tasks(tasks)
    return finish('C38', tier, seed, obs, 'other', t0,
                  explanation='bounded contract evaluation of mpyc/secpols.py (class secpoly) on the real code with the m = 1 runtime and NumPy enabled: every operator and method '
                              '(construction from int arrays / secure arrays / GFpX values, copy, mpc.input, mpc.output, + - * unary - and +, static add/sub/mul, << >> truncate [i], '
                              '// % divmod mod with secret and public operands on either side, gcd, gcdext (d, Bezout identity, cofactors), invert, powmod and ** with public exponents '
                              'incl. 0, 1, negative and a constant modulus, evaluation at public and secret points, degree, reverse (d none / public / secret), monic, the six comparisons, '
                              'is_irreducible, if_else / if_swap, documented errors) is run on shares given as coefficient tuples WITH trailing zeros (the share length is the only public '
                              'datum), every result is opened with mpc.output and compared with GFpX(p) of mpyc/gfpx.py on the normalised coefficient lists and with the independent '
                              'reference implementation of contracts/gfpx.py (the two oracles must also agree). Domains: p in {2,3,5,7,31,257}; all shares / pairs of shares up to the small '
                              'lengths stated per obligation for p <= 5 (7), deterministic samples (random.Random) up to length 9 for the larger p with the special shapes zero, constant, '
                              'monic, equal operands, multiples, common factor, divisor longer than dividend, leading zero coefficients. length_public runs every operator on several shares '
                              'of the same lengths and demands value-independent result lengths and secure result types. Classes of inputs that fail on the unchanged tree are isolated in '
                              'their own obligations with class keys (the contract stays strict)',
                  assumptions=['single-party runtime (m = 1): mpyc/secpols.py has no party-dependent code of its own; the secure array primitives it calls (np_* of mpyc/runtime.py) are the '
                               'subject of C37 and, for more parties, of the protocol checks; "all party configurations" is therefore NOT enumerated here',
                               'supported domain taken from the module docstring ("for certain operations, p must be sufficiently large, in particular compared to the degree bound"): the '
                               'degree-dependent operations (monic, secret-d reverse, // % divmod mod, gcd, gcdext, invert, powmod, is_irreducible, < <= > >=) are exercised only when every '
                               'share they meet (operands and intermediate products) has length < p; degree() and reverse() up to length p (the module\'s own guard assert len(a) <= p); '
                               'over GF(2) only ring operations, shifts, evaluation, degree/reverse, == and != (division cannot work over GF(2): _div hands lists to BinaryPolynomial._invert)',
                               'documented preconditions kept: divisor / modulus nonzero, invert and negative powers only when the inverse exists, secret d of reverse in -1..len-1, shift counts >= 0, '
                               'condition of if_else / if_swap in {0,1}, values are GFpX polynomials, int arrays or secure arrays (ints, lists, secure field elements must raise TypeError)',
                               'evaluation over GF(2) at even x is compared with the reference implementation only (BinaryPolynomial.__call__ returns 0 there: listed finding of C23)',
                               'a call that does not return within 40 s (5 s in the three obligations whose listed failing class is non-termination) is reported as non-termination',
                               'PRSS keys are derived from the arguments of each case (deterministic replays); the results must not depend on them'],
                  trusted_base=['mpyc/gfpx.py GFpX(p) (oracle 1; itself under contract in C23/C24)', 'reference implementation r_* of contracts/gfpx.py on plain lists (oracle 2)',
                                'mpyc runtime secure-array arithmetic for m = 1, NumPy 2.x', 'lib.native enumeration harness'],
                  checker_cmd=f'bin/check C38 --tier {tier}')
