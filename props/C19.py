"""C19 - parties outside the receivers learn nothing from an output (DESIGN §5 C19)."""
import time
from lib.common import run_tasks, finish
from props import _mp


def run(tier, seed):
    t0 = time.time()
    from sx import mpinst
    obs = run_tasks(_mp.routing(tier) + [('sx.mpinst3', 'float_output_routing', (m, t, tier)) for m, t in mpinst.configs(tier) if t >= 1])
    return finish('C19', tier, seed, obs, 'other', t0,
                  explanation='ghost-network postconditions of output and transfer with all m parties running the real code (mp mode): every message of '
                  'output(x, receivers=R, threshold) has its destination in R, every message of transfer travels along an arc of the declared graph, a party '
                  'outside R returns None and receives nothing from the call. Secure numbers, field elements, lists. For secure floats output to a subset, non-receivers are sent only freshly dealt shares. Bounded in (m,t) and the enumerated sets.',
                  assumptions=_mp.MP_ASSUME + ['SecureFloat._output with partial receivers (t >= 1): every message to a non-receiver must be a row of a random_split call made by its sender in the same run (a freshly dealt share); group elements not covered'], trusted_base=_mp.MP_TRUST)
