"""C19 - parties outside the receivers learn nothing from an output (DESIGN §5 C19)."""
import time
from lib.common import run_tasks, finish
from props import _mp


def run(tier, seed):
    t0 = time.time()
    obs = run_tasks(_mp.routing(tier))
    return finish('C19', tier, seed, obs, 'other', t0,
                  explanation='ghost-network postconditions of output and transfer with all m parties running the real code (mp mode): every message of '
                  'output(x, receivers=R, threshold) has its destination in R, every message of transfer travels along an arc of the declared graph, a party '
                  'outside R returns None and receives nothing from the call. Secure numbers, field elements, lists. Bounded in (m,t) and the enumerated sets.',
                  assumptions=_mp.MP_ASSUME + ['SecureFloat._output with partial receivers and group elements are not covered'], trusted_base=_mp.MP_TRUST)
