"""C35 - barriers and shutdown wait for all started MPyC coroutines (partial: DESIGN §5 C35)."""
import time
from lib.common import run_tasks, finish


def run(tier, seed):
    t0 = time.time()
    T = [('vc.tasks', 'run_contract', ('contracts.runtime_barrier', a, None, tier)) for a in ('barrier_none', 'barrier_str')]
    T += [('contracts.runtime_barrier', 'shutdown_structure', ())]
    T += [('lib.native', 'run_natives', ('contracts.asyncoro_pclevel', ['pc_level'], tier))]
    from props import _mp
    T += _mp.routing(tier)[:6]
    obs = run_tasks(T)
    return finish('C35', tier, seed, obs, 'other', t0,
                  explanation='safety half only. (1) engine A proves Runtime.barrier for all states: with every `await asyncio.sleep(0)` havocking the runtime counters '
                  '(other coroutines run), barrier returns only with no_barrier or no_async or _pc_level <= _program_counter[1] (P). (2) syntactic structure of '
                  'Runtime.shutdown: it starts with the same wait loop, close_connection is dominated by the synchronising transfer, the only early return is m == 1 (P, AST). '
                  '(3) bounded: on every completion path of mpc_coro (value / exception, declared type or annotation, 0..2 suspensions, nesting, synchronous or Task) '
                  '_pc_level == started - finished and the program-counter depth is restored, so at a top-level barrier return (depth 0) no earlier MPyC coroutine is '
                  'unfinished; (4) after every m-party primitive all parties are back at (_pc_level, depth) = (0, 0). That the wait loops do exit and that all '
                  'parties\' shutdowns complete is liveness over schedules: not decided.',
                  assumptions=['liveness not decided', 'await asyncio.sleep(0) modelled as arbitrary change of _pc_level and the program-counter depth'],
                  trusted_base=['z3 5.1', 'CPython asyncio'])
