"""C24 - irreducibility test, next_irreducible, find_irreducible, GF gate (mpyc/gfpx.py, mpyc/finfields.py)."""
import time
from lib.common import run_tasks, finish

MOD = 'contracts.gfpx'
# contracts.gfpx also defines 'next_irreducible_anylc.odd' (literal reading "no irreducible of ANY leading coefficient strictly
# between"); the docstring of next_irreducible and DESIGN.md read the sentence as "next MONIC irreducible", which is what is checked here.


def run(tier, seed):
    t0 = time.time()
    import contracts.gfpx as M
    names = M.names('C24')
    tasks = [('lib.native', 'run_natives', (MOD, [n], tier)) for n in names]
    obs = run_tasks(tasks)
    return finish('C24', tier, seed, obs, 'other', t0,
                  explanation='bounded exhaustive enumeration of executable contracts on the real functions: is_irreducible is called on ALL polynomials '
                              '(monic or not) of degree <= 8 over GF(2) (both the binary and the generic list representation), <= 5 over GF(3), <= 3 over GF(5), '
                              '<= 2 over GF(7) (thorough: one degree more, GF(11) degree <= 2) and compared with brute-force trial division by every monic '
                              'polynomial of degree 1..deg/2 (own long division); next_irreducible on the same arguments: result irreducible, monic, above the '
                              'argument in the integer order, no monic irreducible strictly between; find_irreducible(p, d) = smallest monic irreducible of '
                              'degree d found by brute force; GF(modulus) on all polynomials of degree <= 3 over p in {2,3,5}: succeeds with order p^d exactly '
                              'when the modulus is irreducible by brute force, else ValueError',
                  assumptions=['bounded: only the stated degrees and primes are enumerated; correctness of the Ben-Or style test for all degrees is not proved',
                               '"smallest irreducible polynomial above its argument" is read as smallest MONIC irreducible (docstring of next_irreducible); '
                               'the consequence for find_irreducible is the same under both readings',
                               'a polynomial c*f with a unit c and f monic irreducible counts as irreducible (no nontrivial factor)',
                               'reference arithmetic (contracts/gfpx.py r_*) is written for the check'],
                  trusted_base=['CPython 3.12 int/list semantics, pow(x, -1, p) (oracle side)', 'lib.native enumeration harness'])
