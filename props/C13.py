"""C13 - any t Shamir shares reveal nothing about the secret (DESIGN §5 C13)."""
import time
from lib.common import run_tasks, finish
from props import _thresha as T


def run(tier, seed):
    t0 = time.time()
    tasks = T.a_tasks([('random_split_int', 'contracts.thresha_native:split_draws'), ('random_split_field', 'contracts.thresha_native:split_draws')], tier)
    tasks += T.lean([('L3_split_injective.lean', 'split_injective', 'for fixed secret, shares at t distinct nonzero points determine the t coefficients: the map is a bijection of F^t, so t shares are uniform'),
                     ('L2_horner.lean', 'horner_eval', 'Horner recursion = polynomial evaluation')], tier)
    tasks += T.natives(tier, 'C13')
    obs = run_tasks(tasks)
    return finish('C13', tier, seed, obs, 'other', t0,
                  explanation='engine A proves the randomness discipline of the real random_split for all m, t, secrets (P): per secret exactly t draws '
                  'secrets.randbelow(field.order) (obligation "bound is the field order"), draw k is the coefficient of X^(t-k), a fresh block per secret '
                  '(ghost stream index advances by t per secret, by len(s)*t in total), no other use. With the trusted distribution of randbelow, Lean lemma L3 '
                  '(injectivity of coefficients -> shares at t points, hence bijectivity on F^t) gives uniformity of any <= t shares. For small fields the joint '
                  'distribution of every coalition view is computed exhaustively over ALL dealer randomness on the real function (B).',
                  assumptions=T.A_ASSUME + ['secrets.randbelow(n) is i.i.d. uniform on range(n) (distributional half trusted)'], trusted_base=T.A_TRUST)
