"""C20 - finite field elements obey the field laws through every operator (mpyc/finfields.py, non-NumPy part)."""
import time
from lib.common import run_tasks, finish


def run(tier, seed):
    t0 = time.time()
    from contracts.finfields import C20_NATIVES
    # the triple enumerations are the long ones: one task each, first; the other entries of a field kind are dealt over three tasks
    groups = [[n] for n in C20_NATIVES if n.startswith('axioms')]
    for kind in ('prime', 'binary', 'oddext'):
        rest = [n for n in C20_NATIVES if n.endswith(kind) and not n.startswith('axioms')]
        groups += [rest[i::3] for i in range(3)]
    assert sorted(n for g in groups for n in g) == sorted(C20_NATIVES)
    tasks = [('lib.native', 'run_natives', ('contracts.finfields', g, tier)) for g in groups]
    from contracts import finfields_a as FA
    ops = [k for k in FA.BY_NAME if not k.startswith(('_sqrt', 'signed_', 'unsigned_'))]
    tasks += [('vc.tasks', 'run_contract', ('contracts.finfields_a', 'c_' + k, 'contracts.finfields:' + ('inplace_prime' if k.startswith('__i') and k[3] != 'n' else 'binop_prime'), tier)) for k in ops]
    obs = run_tasks(tasks)
    return finish('C20', tier, seed, obs, 'other', t0,
                  explanation='PRIME FIELDS, all primes p and all elements: engine A (deductive, strength P) verifies the real __init__, __add__/__radd__/__iadd__, '
                              '__sub__/__rsub__/__isub__, __mul__/__rmul__/__imul__, __neg__, __pos__, __truediv__/__itruediv__, __lshift__/__ilshift__, __rshift__/__irshift__, '
                              '__eq__ for the operand cases same-field / int / foreign against result.value == (a op b) mod p, reducedness, in-place identity (returns self), '
                              'operands unchanged, NotImplemented for foreign operands, division via the inverse contract of gmpy.invert. ALL FIELD KINDS: bounded exhaustive contract evaluation on the real classes made by finfields.GF: for every field in the stated bound and every '
                              'element pair / (element, int) / (element, polynomial) / (element, exponent) / (element, shift count) / triple in the stated domain '
                              'the real operator (binary, reflected, in-place, unary, **, <<, >>, ==, hash, bool, reciprocal, constructor) is executed and its result '
                              '(read from the result object, incl. the reducedness of its value) is compared with table arithmetic written for the check: integers mod p, '
                              'coefficient lists modulo the modulus, inverses by search, powers by repeated multiplication. One entry per operator family and field kind '
                              '(prime, binary, odd-characteristic extension) so that one defect does not hide another.',
                  assumptions=['fields are named by literal descriptors; moduli of the extension fields are verified irreducible by trial division in the oracle',
                               '"mixing in integers equals converting first": an int n stands for n mod p in prime fields and for the polynomial with the base-p digits of n '
                               '(negated for n < 0) in extension fields, which is what F(n) is required to produce (entry construct_*)',
                               '"powers of two" in the shift clause: the element with integer encoding 2 (1+1 in odd characteristic, X in binary fields, 0 in GF(2))',
                               'in-place operators: the value of the result equals the binary operator, the right operand is unchanged, and either self is returned holding the '
                               'result or a new object is returned and self is unchanged; a raising in-place operation leaves self unchanged',
                               'hash consistency is required between equal elements of the same field only',
                               'bounded: nothing is claimed about fields outside the stated list'],
                  trusted_base=['CPython 3.12 int arithmetic, pow, pickle (oracle and harness side)', 'mpyc.gfpx only to build operand polynomials from coefficient lists'])
