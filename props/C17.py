"""C17 - the PRF is deterministic and its outputs lie in range (DESIGN §5 C17)."""
import time
from lib.common import run_tasks, finish
from props import _thresha as T


def run(tier, seed):
    t0 = time.time()
    tasks = T.a_tasks([('prf_init', 'contracts.thresha_native:prf_spec')], tier)
    tasks += [('vc.tasks', 'run_frame', ('thresha.py', 'PRF.__call__', 'mpyc.thresha.PRF.__call__')),
              ('vc.tasks', 'run_frame', ('thresha.py', 'PRF.__init__', 'mpyc.thresha.PRF.__init__', ('self.key', 'self.max', 'self.byte_length')))]
    tasks += T.natives(tier, 'C17')
    obs = run_tasks(tasks)
    return finish('C17', tier, seed, obs, 'other', t0,
                  explanation='engine A proves PRF.__init__ for all keys and bounds >= 1 (P): byte_length = ceil(bitlen(bound-1)/8) (+ len(key) unless bound is a '
                  'power of two) and bound - 1 < 256^ceil(...), i.e. enough bytes to cover range(bound). Determinism: syntactic frame proof over the real AST of '
                  '__call__ (no write to self or arguments, no global/nonlocal, no randomness/clock/OS call) so the result is a function of (key, bound, s, n) given '
                  'the determinism of shake_128. Range, length, scalar/list/prefix consistency and the documented construction are checked on the real function '
                  'over the listed keys, bounds, inputs and counts (B). __call__ itself (generator expressions, XOF) is outside engine A\'s subset.',
                  assumptions=['hashlib.shake_128(b).digest(n) is a deterministic function of (b, n) with the XOF prefix property', 'int.bit_length contract',
                               'tuple shapes need NumPy: not covered'], trusted_base=T.A_TRUST)
