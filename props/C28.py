"""C28 - secure group operations match plain group operations in every party configuration (bounded: concrete m-party runs)."""
import time
from lib.common import run_tasks, finish
from sx import mpinst
from sx.mpprogs_grp import FAMILIES


def tasks(tier):
    T = []
    seeds = list(range(1, 4 if tier == 'quick' else 9))
    light = [i for i, n in enumerate(FAMILIES) if n in ('sym4', 'qr', 'schnorr')]
    heavy = [i for i, n in enumerate(FAMILIES) if n not in ('sym4', 'qr', 'schnorr')]
    for m, t in mpinst.configs(tier):
        for np_ in (False, True):
            sd = seeds if m <= 5 else seeds[:2]            # 6-7 parties: ~100 s per seed for the permutation group
            for fam in light:
                T.append(('sx.mpinst', 'concrete_program', (m, t, np_, 'secgrp_ops', fam, 30, sd)))
                if FAMILIES[fam] != 'sym4':
                    T.append(('sx.mpinst', 'concrete_program', (m, t, np_, 'secgrp_exp', fam, 30, sd)))
                    if not np_ and FAMILIES[fam] == 'qr': T.append(('sx.mpinst', 'concrete_program', (m, t, np_, 'secgrp_expint', fam, 30, sd[:2])))
    # curve and class groups: every secure operation costs hundreds of resharings in pure Python; fewer configurations and seeds
    for m, t in ((1, 0), (3, 1)) if tier == 'quick' else ((1, 0), (2, 0), (3, 1), (5, 2)):
        for fam in heavy:
            if m == 5 and FAMILIES[fam] == 'cl': continue            # > 300 s per seed
            ns = 1 if (tier == 'quick' or m == 5) else 3
            T.append(('sx.mpinst', 'concrete_program', (m, t, False, 'secgrp_ops', fam, 30, seeds[:ns])))
    return T


def run(tier, seed):
    t0 = time.time()
    obs = run_tasks(tasks(tier))
    for o in obs:
        o.function = 'mpyc.secgroups (' + o.name.split(':')[0] + ')'
    return finish('C28', tier, seed, obs, 'other', t0,
                  explanation='bounded: m real Runtime objects on one event loop (sx/mp.py) run programs on secure groups - symmetric group S4, quadratic residues, Schnorr group '
                  '(small parameters), Ed25519 (extended and affine coordinates), BN256 and a class group: secure elements obtained by conversion from plain elements and by '
                  'input from party 0; @ with secure/public operands, ~, ^ with public exponents, ==, !=, if_else with both conditions, repeat with public exponents; for the '
                  'prime-order groups repeat with SECRET exponents (secure field of the group order and secure integers) for public and secret bases, and repeat_public '
                  '(multi-exponentiation with per-party shares of the exponent: the recombination-vector path that is trivial for one party). Every opened result is '
                  'compared with the plain group operation, for every party; the ghost network must be balanced after the run.',
                  assumptions=['seeded concrete runs (inputs random powers of the generator), one delivery schedule per run', 'secure hyperelliptic-curve groups need NumPy (secure polynomials): not covered',
                               'group laws of the plain groups are C27', 'small group parameters for QR / Schnorr (16..40 bits); curve groups at their real size'],
                  trusted_base=['sx/mp.py harness (ghost network, seeded randomness)', 'CPython'])
