"""Demo driver: runs all bounded contracts of contracts/thresha_native.py (C12, C13, C15, C17 natives) under property id 'C12'.
Not a property check of its own; the real props/C12.py etc. combine `contracts.thresha_native.tasks(tier, prop)` with engine A.
VERIF_DEMO_PROPS=C13,C17 restricts the run to the natives of the listed properties."""
import os, time
from lib.common import run_tasks, finish
from contracts import thresha_native as TN


def run(tier, seed):
    t0 = time.time()
    props = [p for p in os.environ.get('VERIF_DEMO_PROPS', 'C12,C13,C15,C17').split(',') if p]
    tasks = [t for p in props for t in TN.tasks(tier, p)]
    obs = run_tasks(tasks)
    if os.environ.get('VERIF_DEMO_TIMES'):
        for o in sorted(obs, key=lambda o: -o.time)[:int(os.environ['VERIF_DEMO_TIMES'])]:
            print(f'  {o.time:7.2f}s {o.evals:7d} cases  {o.name}  {o.status}')
    return finish('C12', tier, seed, obs, 'other', t0,
                  explanation='bounded executable contracts of mpyc/thresha.py (non-NumPy functions) evaluated on the real functions: '
                              'oracle = own GF(p^d) table arithmetic, Lagrange interpolation and restated PRF construction; dealer randomness '
                              'scripted / exhaustively enumerated through a stand-in for thresha.secrets',
                  assumptions=['secrets.randbelow(n) is uniform on range(n) and independent between calls (C13 weights)',
                               'hashlib.shake_128 is the XOF the parties agree on (C17 oracle uses the same hashlib)',
                               'extension-field modulus read from field.modulus; the oracle checks that it defines a field',
                               'C15: subset PRF outputs are taken from thresha.PRF (pinned to the documented construction by the C17 natives)',
                               'NumPy variants (np_*) and tuple shapes not covered (MPYC_NONUMPY=1)'],
                  trusted_base=['CPython 3.12 int arithmetic, fractions, itertools, hashlib'],
                  checker_cmd=f'bin/check _thresha_native_demo --tier {tier}')
