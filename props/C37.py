"""C37 - secure NumPy arrays: secure integer, fixed-point and field arrays against plain NumPy on exact data and against
elementwise secure scalars; array-based sharing, recombination and PRSS against the list-based versions.  BOUNDED."""
import time
from lib.common import run_tasks, finish

MOD = 'contracts.secarray_native'
# number of slices of the input domain of the heavier natives (default 1)
SLICES = {'compare_int': 4, 'compare_fxp': 4, 'div_fxp': 3, 'sort_int': 2, 'sort_fxp': 3, 'reshape_int': 2, 'reshape_fxp': 2, 'reshape_fld': 3, 'ffarray': 2, 'arith_fld': 2, 'bits_fxp': 2}
THOROUGH_FACTOR = {'compare_int': 3, 'compare_fxp': 3, 'div_fxp': 4, 'sort_fxp': 2, 'sort_int': 2, 'reshape_fld': 2, 'reshape_int': 2, 'reshape_fxp': 2, 'arith_int': 2, 'arith_fxp': 2, 'arith_fld': 2}


def run(tier, seed):
    t0 = time.time()
    import contracts.secarray_native as M
    mp = [n for n in M.NATIVE if n.startswith('mp_')]
    rest = [n for n in M.NATIVE if n not in mp]
    rest.sort(key=lambda n: -SLICES.get(n, 1))        # heavy enumerations first: balanced pool
    tasks = []
    for name in rest:
        k = SLICES.get(name, 1) * (1 if tier == 'quick' else THOROUGH_FACTOR.get(name, 1))
        tasks += [(MOD, 'run_slice', (name, tier, i, k)) for i in range(k)]
    if tier == 'quick':
        tasks += [(MOD, 'run_group', (mp[i::6], tier)) for i in range(6)]
    else:
        tasks += [(MOD, 'run_slice', (name, tier, i, 2)) for name in mp for i in range(2)]
    # low-probability random events forced (added after a seeded change in _np_is_zero was missed)
    tasks += [('lib.native', 'run_natives', ('contracts.secarray_extra', ['is_zero_forced_zero_mask'], tier))]
    obs = run_tasks(tasks)
    return finish('C37', tier, seed, obs, 'other', t0,
                  explanation='BOUNDED contract evaluation of the secure NumPy arrays on the real code (NumPy enabled). Every case (type, operation, operand shapes/kinds, parameters) is evaluated '
                              '(1) with secure arrays through the operators / numpy dispatch / mpc.np_* methods and opened, (2) with plain NumPy on object arrays of exact values (Python ints, '
                              'Fractions, own finite-field arithmetic) and (3) elementwise with secure scalars where a scalar analogue exists. Secure integers and fields: exact equality of values '
                              'and shapes; fixed point: within the unit bounds (product 1 unit 2^-f, sums exact, public float factor 2(1+|x|), matmul n, division 16(1+|x|)+2|x/y|, product trees '
                              '(k-1)M^(k-1)); the shape declared by the returned placeholder equals the shape of the value; the integral flag of fixed-point results is a bool and True only for '
                              'integral values. Families: elementwise arithmetic with broadcasting over shape pairs of rank <= 3 with axis sizes 0..3, division, powers, shifts; matmul/outer/convolve/'
                              'vander/det; comparisons, sgn, abs, min/max, where; sort, amin/amax, argmin/argmax; sum/prod/all/any/cumsum/trace; the reshaping, joining, splitting and indexing family; '
                              'input/output/reshare; bits (to_bits, from_bits, trunc, lsb, unit_vector, find, random_bits); public FiniteFieldArray arithmetic; thresha.np_random_split/np_recombine '
                              'against own polynomial evaluation and random_split/recombine with the same dealer coefficients for all t < m <= 5 and every share subset; np_pseudorandom_share(_0) '
                              'against the list versions with the same PRF keys; slices of the families re-run with m = 2..5 parties (in-process harness, asynchronous mode, with and without PRSS). '
                              'Delimited classes of inputs that deviate on the unchanged tree are reported under class keys (known_findings.txt)',
                  assumptions=['bounded: deterministic samples (random.Random(seed)) and small exhaustive grids as stated in the bound of every obligation; nothing is proved',
                               'one-party runs: m = 1, synchronous coroutines, PRSS key derived from a seed; m-party runs: sx/mp.py harness (ghost network, one delivery schedule, seeded dealer randomness, sec_param 30)',
                               'fixed-point tolerances are derived from the unit bounds of C02, not documented by the code; data ranges chosen so that no intermediate value overflows the secure type',
                               'comparisons / zero tests are probabilistic with error 2^-k or 1/|field| (k = 30): not enumerated',
                               'not covered: np_log/np_exp and relatives (approximations, C02-like bounds undefined), np_block with mixed scalars, secret-indexed access, argmin/argmax/sort with user keys other than -x, '
                               'SecFlt arrays (do not exist), np_tile/np_dot/np_convert (not offered by the runtime), error cases'],
                  trusted_base=['CPython 3.12', 'NumPy 2.x on object arrays (oracle side), fractions', 'contracts/thresha_native.OF (own GF(p^d) arithmetic)', 'sx/mp.py m-party harness'])
