"""C04 - secure finite-field arithmetic (mpyc/sectypes.py SecureFiniteField + the field-element operations of mpyc/runtime.py)."""
import time
from lib.common import run_tasks, finish

NATIVES = ['arith_pairs_prime', 'arith_mixed_prime', 'mix_int_prime', 'pow_prime', 'unary_prime',
           'arith_pairs_binary', 'arith_mixed_binary', 'mix_int_binary', 'pow_binary', 'unary_binary',
           'arith_pairs_oddext', 'arith_mixed_oddext', 'mix_int_oddext', 'pow_oddext', 'unary_oddext',
           'bitwise_pairs', 'bitwise_public_right', 'bitwise_public_left', 'to_bits', 'signed_outputs', 'div_secret_zero',
           'reciprocal_forced_retry', 'lifted_value_ops']


def run(tier, seed):
    t0 = time.time()
    tasks = [('lib.native', 'run_natives', ('contracts.secfld', [n], tier)) for n in NATIVES]
    # m-party runs (every configuration up to 7 parties, with and without PRSS): field operations, and reciprocal / division with the FORCED event that
    # the first blinding factor is 0 (retry path: its thresholds and resharing only matter for m >= 3)
    from props import _mp
    from sx import mpinst
    tasks += _mp.concrete(tier, ['field_ops', 'recip_retry'], mpinst.CONFIGS_THOROUGH)
    obs = run_tasks(tasks)
    return finish('C04', tier, seed, obs, 'other', t0,
                  explanation='bounded exhaustive contract evaluation on the real functions: secure field types are built by the real SecFld through every construction '
                              'route (order=, modulus= as int / polynomial object / string, char+ext_deg, min_order) for GF(2), GF(3), GF(5), GF(7), GF(11), GF(101), GF(4), GF(8), '
                              'GF(16), GF(256), GF(9), GF(25), GF(27) (thorough: more primes, GF(32), GF(64), GF(49), GF(81)); with the m = 1 runtime every pair of elements '
                              '(lattice sample for q > 16/32) goes through +, -, *, /, **, ==, !=, unary -, is_zero, reciprocal, mixing with public ints and public field '
                              'elements on either side, and the opened result (real output protocol) is compared, as a reduced element of the requested plain field, with an '
                              'independent table-arithmetic field written for the check; characteristic 2: & | ^ ~ against the int operators on the encodings; to_bits/from_bits '
                              'exact for prime (unsigned and signed) and binary fields; the retry path of reciprocal is forced by a stand-in for _random, division by a secret zero '
                              'yields no value; small fields lifted because m >= q: types built under stand-in runtimes (m,t) and evaluated at the value level (outputs in the '
                              'requested subfield with subfield results)',
                  assumptions=['single-party runtime (m = 1, threshold 0, no_async): shares are the values; multi-party share arithmetic of these operations is the subject of C11/C12',
                               'lifted types (m >= q, t > 0) are constructed under a stand-in runtime object and evaluated with the m = 1 runtime: value-level algebra only',
                               'internal randomness (PRSS via secrets) is not controlled: every case is run once (thorough: three times); the zero-mask retry of reciprocal is forced separately',
                               'the irreducible modulus chosen by SecFld when none is requested is read from the constructed field and validated (monic, degree, irreducible by trial division) by the oracle',
                               'signed prime fields: to_bits is specified as the two\'s complement bits of the signed representative (convention of secure integers); '
                               'from_bits(to_bits(x)) == x is required for nonnegative representatives only (from_bits documents that it does not handle sign bits)',
                               'a public operand of &, |, ^ and to_bits of a lifted odd prime field may be refused (TypeError/AttributeError); a wrong value is a violation',
                               'reciprocal of a secret zero does not terminate in the code (documented "for nonzero a"): checked with a cut-off after 8 mask draws',
                               'oracle: coefficient-list arithmetic modulo the modulus, inverses by exhaustive search, powers by repeated multiplication (contracts/finfields.OF)'],
                  trusted_base=['CPython 3.12 int arithmetic', 'contracts/finfields.py oracle field OF (written for the checks, independent of mpyc)'])
