"""C08 - results and termination do not depend on the schedule (partial, bounded: random delivery schedules; the chunking half is C10's proof)."""
import time
from lib.common import run_tasks, finish
from sx import mpinst


def tasks(tier):
    T = []
    # (a) "any split of a connection's byte stream": proved for ALL chunkings at the receiving end (engine A, as under C10/C09)
    T += [('vc.tasks', 'run_contract', ('contracts.asyncoro', a, 'contracts.asyncoro_native:framing', tier)) for a in ('data_received', 'receive', 'send')]
    # shutdown terminates whatever the order in which the peers' connections are lost: structural obligations on Runtime.shutdown (as under C35)
    T += [('contracts.runtime_barrier', 'shutdown_structure', ())]
    # (b) delivery schedules: same inputs and same protocol randomness under random per-connection-FIFO schedules
    cfgs = [(2, 0), (3, 1), (4, 1), (5, 2), (7, 3)] if tier == 'quick' else mpinst.CONFIGS_THOROUGH
    progs = [('pipeline', 8), ('int_ops', 6), ('fxp_ops', 8), ('bit_ops', 8), ('convert_ops', 8), ('field_ops', 8), ('seclist_ops', 8), ('random_ops', 8)]
    nsched = 8 if tier == 'quick' else 40
    for m, t in cfgs:
        if m == 1: continue
        for np_ in (False, True):
            for pn, l in progs:
                if tier == 'quick' and m >= 6 and pn in ('pipeline', 'seclist_ops'): continue          # > 60 s per task with 7 parties: thorough tier only
                if pn == 'random_ops' and np_: continue          # without PRSS the random VALUES depend on the order in which parties draw local randomness: legitimately schedule dependent
                for seed in ((1,) if tier == 'quick' else (1, 2, 3)):
                    ns = nsched if m <= 5 else max(4, nsched // 4)
                    if pn == 'pipeline' and tier == 'quick': ns = 4 if m <= 5 else 2          # the heaviest program (50 000 messages per run with 5 parties)
                    T.append(('sx.mpinst3', 'schedule_independence', (m, t, np_, pn, l, 30, seed, ns)))
    if tier != 'quick':
        for m, t in ((3, 1), (4, 1)):
            T.append(('sx.mpinst3', 'schedule_independence', (m, t, False, 'gcd_ops', 12, 30, 1, 6)))
    return T


def run(tier, seed):
    t0 = time.time()
    obs = run_tasks(tasks(tier))
    return finish('C08', tier, seed, obs, 'other', t0,
                  explanation='partial. (a) Byte-stream splits: engine A proves for ALL chunkings that MessageExchanger.data_received hands over exactly the complete frames of the '
                  'sender\'s stream, each once, with its own label, and that receive returns the payload buffered under its label or a future resolved by it (P; same contracts as C10/C09). '
                  '(b) Delivery schedules (bounded): m real runtimes on one event loop with a ghost network whose messages wait in per-connection FIFO queues and are delivered one at '
                  'a time from a randomly chosen connection between steps of the loop (seeded schedules); eight composite programs (among them a pipelined one that starts operations on operands not yet arrived, awaits something unrelated and goes on) with fixed inputs and fixed protocol randomness are '
                  'run under immediate delivery and under 8 (thorough 40) random schedules per configuration: under every schedule all parties complete, obtain exactly the outputs '
                  'of the baseline schedule, no label is used twice, and the network is balanced at the end (every message received, every receive matched). '
                  'Liveness for ALL schedules and programs is not decided: completion is observed for the explored schedules only.',
                  assumptions=['schedules are sampled, not enumerated; frames are delivered whole in (b) (arbitrary splits are the subject of (a))',
                               'local computation interleaves at the granularity of event-loop callbacks (asyncio semantics), not below',
                               'termination in general (programs awaiting results under arbitrary schedules) is not decided'],
                  trusted_base=['sx/mp.py harness (ghost network, queues, seeded randomness)', 'CPython asyncio', 'z3 5.1 for part (a)'])
