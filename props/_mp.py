"""Task lists shared by the mp-mode properties (C07, C09, C11, C14, C16, C19)."""
from sx import mpinst

PROGS = ['int_ops', 'fxp_ops', 'bit_ops', 'convert_ops', 'field_ops', 'random_ops', 'seclist_ops']


def sym(tier):
    return [('sx.mpinst', 'sym_primitives', (m, t, np_)) for m, t in mpinst.configs(tier) for np_ in (False, True)]


def concrete(tier, progs=PROGS, cfgs=None):
    T = []
    # concrete runs are cheap (about 1 s per program with 7 parties): the quick tier also includes (6,2) and (7,3), the only configurations in which
    # comb(m,t) exceeds t+1 by more than the head room of the fields (mask bounds of PRSS-based randomness)
    cfgs = cfgs or (mpinst.configs(tier) + ([(6, 2), (7, 3)] if tier == 'quick' else []))
    seeds = list(range(1, 3 if tier == 'quick' else 9))
    for m, t in cfgs:
        for np_ in (False, True):
            for pn in progs:
                l = 12 if pn == 'gcd_ops' else 8
                sd = seeds
                if pn == 'gcd_ops' and m >= 6:
                    if tier == 'quick': continue
                    sd = seeds[:2]          # ~100 s per seed with 7 parties (450 000 messages): two seeds fit the task limit
                T.append(('sx.mpinst', 'concrete_program', (m, t, np_, pn, l, 30, sd)))
    return T


def routing(tier):
    T = []
    for m, t in mpinst.configs(tier):
        T.append(('sx.mpinst2', 'transfer_routing', (m, t, tier)))
        for np_ in (False, True):
            T.append(('sx.mpinst2', 'io_routing', (m, t, tier, np_)))
    return T


def handshake(tier):
    return [('sx.mpinst2', 'handshake', (m, t, tier)) for m, t in mpinst.configs(tier)]


MP_ASSUME = ['m real Runtime objects on one asyncio loop with a ghost network (sx/mp.py): one delivery schedule per run; schedules are not enumerated',
             'symbolic runs: dealer coefficients and PRF outputs are free symbols; "degree <= d sharing of v" is decided exactly on polynomial normal forms mod p',
             'concrete runs: seeded randomness, k = 30; ghost checks interpolate the parties\' shares with an oracle written for the check',
             'PRSS keys placed by hand in the composite runs (the handshake itself is checked under C16)']
MP_TRUST = ['CPython 3.12 asyncio', 'sx/mp.py harness (ContextVar runtime proxy, ghost network, loop stepping)']
