"""C22 - field elements survive serialisation (mpyc/finfields.py)."""
import time
from lib.common import run_tasks, finish


def run(tier, seed):
    t0 = time.time()
    from contracts.finfields import C22_NATIVES
    tasks = [('lib.native', 'run_natives', ('contracts.finfields', [n], tier)) for n in C22_NATIVES]
    tasks += [('vc.tasks', 'run_contract', ('contracts.finfields_a', a, 'contracts.finfields:intviews_prime', tier)) for a in ('c_signed_', 'c_unsigned_')]
    obs = run_tasks(tasks)
    return finish('C22', tier, seed, obs, 'other', t0,
                  explanation='bounded contract evaluation on the real to_bytes/from_bytes, pickle round trip (all protocols) and __int__/signed_/unsigned_: '
                              'from_bytes(to_bytes(values of the elements)) returns the integer encodings of the elements, the encoding has length n * byte_length, also for the '
                              'largest element of fields whose order lies just below/above a power of 256; an unpickled element has the identical (cached) class, is ==, has '
                              'the same hash and computes with the original; unsigned_() is the reduced value, signed_() is the unique representative in (-p/2, p/2], '
                              '__int__ follows is_signed (checked on classes of its own for both settings); int() of an extension field element is its base-p encoding.',
                  assumptions=['GF((p, n, w)): 0 < w < p in pickle_prime; w outside range(p) is outside the domain',
                               'bounded: nothing is claimed about fields or lists outside the stated domain'],
                  trusted_base=['CPython 3.12 pickle, int.to_bytes/from_bytes'])
