"""C36 - a crashed or disconnected party never makes others output wrong values (partial: DESIGN §5 C36)."""
import time
from lib.common import run_tasks, finish
from sx import mpinst


def run(tier, seed):
    t0 = time.time()
    T = [('vc.tasks', 'run_contract', ('contracts.asyncoro', a, 'contracts.asyncoro_native:truncated', tier)) for a in ('data_received', 'receive')]
    T += [('lib.native', 'run_natives', ('contracts.asyncoro_native', [n], tier)) for n in ('truncated', 'tallier')]
    T += [('vc.tasks', 'run_contract', ('contracts.thresha', a, None, tier)) for a in ('recombine_scalar_int', 'recombination_vector')]
    for m, t in [c for c in mpinst.configs(tier) if c[0] >= 2]:
        for np_ in (False, True):
            T.append(('sx.mpinst2', 'crash_points', (m, t, tier, np_)))
            T.append(('sx.mpinst2', 'crash_points', (m, t, tier, np_, None, 'eof')))
    obs = run_tasks(T)
    return finish('C36', tier, seed, obs, 'other', t0,
                  explanation='safety argument from discharged contracts plus a bounded crash enumeration: (a) engine A: data_received hands a payload over only '
                  'for a COMPLETE frame of the sender\'s stream (a truncated stream leaves the tail in self.bytes) and receive returns exactly the buffered '
                  'payload of that label (P); (b) gather_shares/_SharesTallier completes only after all registered futures completed, with exactly their results '
                  '(bounded: nested shapes, all completion orders); (c) recombine/_recombination_vector contracts (P, C12): correct value from t+1 genuine shares; '
                  '(d) mp-mode runs of input*mul+lsb+output in which one party stops sending after each of its message sends: every surviving party either '
                  'outputs the correct values or never completes (bounded in (m,t), one program). Liveness and mid-frame crashes over a real socket are not decided.',
                  assumptions=['crash = the party\'s later messages are never delivered (ghost network); a frame cut in the middle is covered by the framing contract',
                               'one program, one schedule per crash point'],
                  trusted_base=['z3 5.1', 'CPython asyncio'])
