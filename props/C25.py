"""C25 - number-theory helpers (mpyc/gmpy.py stubs)."""
import time
from lib.common import run_tasks, finish

A_CONTRACTS = [('contracts.gmpy', 'invert', 'invert'), ('contracts.gmpy', 'gcdext', 'gcdext'), ('contracts.gmpy', 'ratrec_given', 'ratrec'), ('contracts.gmpy', 'ratrec_N', 'ratrec'),
               ('contracts.gmpy', 'ratrec_D', 'ratrec'), ('contracts.gmpy', 'ratrec_ND', 'ratrec'), ('contracts.gmpy', 'next_prime', 'next_prime'), ('contracts.gmpy', 'prev_prime', 'prev_prime'),
               ('contracts.gmpy', 'is_square', 'is_square')]
NATIVES = ['invert', 'gcdext', 'ratrec', 'is_prime', 'next_prime', 'prev_prime', 'powmod', 'powmod_lists', 'legendre', 'jacobi',
           'kronecker', 'isqrt', 'is_square', 'iroot', 'factor_prime_power']


def run(tier, seed):
    t0 = time.time()
    tasks = [('vc.tasks', 'run_contract', (m, a, n, tier)) for m, a, n in A_CONTRACTS]
    tasks += [('lib.native', 'run_natives', ('contracts.gmpy', [n], tier)) for n in NATIVES]
    obs = run_tasks(tasks)
    return finish('C25', tier, seed, obs, 'other', t0,
                  explanation='contract verification of mpyc/gmpy.py: engine A (VCs from the AST of the real source, z3/cvc5) proves, for all integers: invert (inverse, range, raises iff gcd != 1), '
                              'gcdext (g = gcd >= 0, Bezout identity except on the GMP-normalisation tail), ratrec (n = d*x mod y, |n| <= N, 0 < d <= D, coprime, for all four default cases), '
                              'next_prime/prev_prime (least/greatest prime beyond x, relative to the is_prime contract), is_square (mod-16 filter sound); the '
                              'contracts marked P for all integers; every function additionally (or, where no inductive invariant is within '
                              'reach, only) has its executable contract evaluated on the real function over the stated finite domain (B, bounded)',
                  assumptions=['Python int = mathematical integer; // and % floor semantics encoded definitionally',
                               'termination of loops not proved (partial correctness)',
                               'gcd is an uninterpreted spec function constrained only by instantiated Euclid steps gcd(a,b)=gcd(b,a mod b), gcd(a,0)=|a|',
                               'oracles of the bounded checks (trial division, Euler criterion by search, definitions of Jacobi/Kronecker) are written for the check',
                               'GMP normalisation of gcdext taken from the documented convention (gmpy2 itself is not installed)'],
                  trusted_base=['z3 5.1 / cvc5 1.0.3 / z3 4.8.12', 'CPython 3.12 semantics of divmod, abs, pow', 'math.isqrt, math.gcd (oracle side)'])
