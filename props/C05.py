"""C05 - secure floating-point arithmetic (mpyc/sectypes.py SecureFloat, SecFlt(l, s, e)): accuracy of input/output, + - * / and exactness of
the comparisons outside the 16u band.  Bounded executable contracts on the real code (m = 1 runtime); nothing here is a proof."""
import time
from lib.common import run_tasks, finish

MOD = 'contracts.secflt_native'
# number of slices (quick, thorough) of the input domain of the heavier natives; all others run whole, the light ones bundled
SLICES = {'add_s6e5': (6, 4), 'sub_s6e5': (1, 4), 'div_s6e5': (1, 1), 'add_s8e5': (4, 16), 'sub_s8e5': (1, 4), 'mul_s8e5': (1, 2), 'div_s8e5': (2, 6),
          'zero_operand': (6, 12), 'mixed_s8e5': (1, 2), 'mixed_s24e8': (1, 6), 'mixed_s53e11': (1, 4),
          'add_s24e8': (1, 2), 'sub_s24e8': (1, 2), 'div_s24e8': (1, 2), 'add_s53e11': (1, 2), 'sub_s53e11': (1, 2), 'div_s53e11': (2, 4), 'mul_s53e11': (1, 1)}
SLICES.update({f'{op}_s8e5': (1, 2) for op in ('lt', 'le', 'eq', 'ge', 'gt', 'ne')})
SLICES.update({f'{op}_s53e11': (1, 1) for op in ('lt', 'le', 'eq', 'ge', 'gt', 'ne')})
SLICES.update({f'{op}_s24e8': (1, 1) for op in ('lt', 'le', 'eq', 'ge', 'gt', 'ne')})


def run(tier, seed):
    t0 = time.time()
    import contracts.secflt_native as M
    ti = 0 if tier == 'quick' else 1
    heavy = sorted((n for n in M.NATIVE if n in SLICES), key=lambda n: -SLICES[n][ti])
    light = [n for n in M.NATIVE if n not in SLICES]
    tasks = []
    for name in heavy:
        k = SLICES[name][ti]
        tasks += [(MOD, 'run_slice', (name, tier, i, k)) for i in range(k)]
    nb = 6 if tier == 'quick' else 12
    tasks += [('lib.native', 'run_natives', (MOD, light[i::nb], tier)) for i in range(nb) if light[i::nb]]
    obs = run_tasks(tasks)
    return finish('C05', tier, seed, obs, 'other', t0,
                  explanation='BOUNDED executable-contract evaluation (not a proof) of secure floating-point arithmetic on the real code of mpyc/sectypes.py (SecureFloat) and the '
                              'runtime protocols it calls, with the m = 1 runtime and a PRSS key derived from the arguments of every case. Reference: exact rational arithmetic '
                              '(fractions.Fraction). Clauses, with u = 2^-(s-1): io/input within 2u|x|; + and - within 16u*max(|x|,|y|); * and / within 16u*|exact|; the six '
                              'comparisons return 0 or 1 and are exact whenever |x-y| > 16u*max(|x|,|y|); results are secure floats of the operand type; no exception on the domain. '
                              'Domains: SecFlt(s=6,e=5) and SecFlt(s=8,e=5): pairs of ALL legal significands (both representations of powers of two, both signs) given as '
                              '(significand, exponent) pairs, every exponent distance -(s+1)..s+1 for + and -, all significands x all exponents for io (quick tier thins the pairs '
                              'of s=8 and of the comparisons; the thinning is stated in the bound of every obligation); SecFlt(s=11,e=5), SecFlt(s=24,e=8), SecFlt(s=53,e=11): '
                              'deterministic structured samples (equal / opposite values, last-bit neighbours, distances around the 16u boundary, x + tiny, both ends of the exponent '
                              'range, arbitrary doubles through the constructor); mixed public int/float operands on either side; zero operands in every form; constructor arguments '
                              'next to powers of two',
                  assumptions=['single-party runtime (m = 1, synchronous coroutines): the code of SecureFloat and of the protocols below it is the same for every m; the multi-party '
                               'secret sharing, resharing and the branch of SecureFloat._output for a proper subset of receivers are not exercised here',
                               'domain reading of "all float inputs whose exponents fit the exponent type": the exponent ceil(log2|x|) of every nonzero operand and of the exact '
                               'nonzero result of an arithmetic operation lies in -2^(e-1) .. 2^(e-1)-1; division only by nonzero divisors',
                               'x and y in the bounds are the values handed in (floats through the constructor include its rounding, the stricter reading); the probabilistic '
                               'rounding of the fixed-point truncations is sampled with ONE deterministic PRSS key per case, not enumerated',
                               'types other than the five above, unary -, abs, and the sorting functions built on the comparisons are not covered; the larger types are sampled, '
                               'not enumerated',
                               'NumPy disabled in the check environment (no secure float arrays exist in mpyc)'],
                  trusted_base=['CPython 3.12', 'fractions/itertools/random on the oracle side', 'the m = 1 mpyc runtime as the evaluator of the real code'])
