"""C31 - secure lists behave like Python lists under any operation history (DESIGN §5 C31)."""
import time
from lib.common import run_tasks, finish
from sx.seclist_inst import OPS


def tasks(tier):
    T = []
    ns = (1, 2, 3, 4) if tier == 'quick' else (1, 2, 3, 4, 5, 6)
    for n in ns:
        for op in OPS:
            if op in ('sort', 'sort_rev') and n > 3: continue
            params = dict(l=6, n=n, op=op)
            T.append(('sx.tasks', 'run_instance', ('sx.seclist_inst', 'seclist', params, dict(k=2, no_prss=False), f'mpyc.seclists.seclist({op})',
                                                   f'n={n}; all contents in -2..2 and every secret index (symbolic)')))
        for op in ('lt', 'le', 'eq', 'ne', 'gt', 'ge', 'extend', 'add'):
            for n2 in {0, max(0, n - 1), n + 1}:
                T.append(('sx.tasks', 'run_instance', ('sx.seclist_inst', 'seclist', dict(l=6, n=n, op=op, n2=n2), dict(k=2, no_prss=False),
                                                       f'mpyc.seclists.seclist({op})', f'lengths {n} and {n2}')))
    for op in ('append', 'extend', 'count', 'find', 'lt', 'eq', 'copy' if False else 'add', 'mul'):
        T.append(('sx.tasks', 'run_instance', ('sx.seclist_inst', 'seclist', dict(l=6, n=0, op=op, n2=2), dict(k=2, no_prss=False), f'mpyc.seclists.seclist({op})', 'empty list')))
    from props import _mp
    T += _mp.concrete(tier, ['seclist_ops'], [(1, 0), (3, 1)])
    return T


def run(tier, seed):
    t0 = time.time()
    obs = run_tasks(tasks(tier))
    return finish('C31', tier, seed, obs, 'other', t0,
                  explanation='abstract view view(L) = list of opened values. For every seclist operation (get/set/delete/insert/pop with a secret index given as secure '
                  'number, unit vector or secindex; append, extend, +, +=, *, copy, slices, public indices, remove, count, contains, find, index, sort, all six '
                  'comparisons incl. different lengths, secindex addition) the REAL method runs on symbolic contents and a symbolic secret index (engine symx) and the '
                  'whole resulting view and the result are compared with the same Python list operation (applied to lists of terms for each concrete index). Each '
                  'postcondition speaks about the whole view, so any history of operations is covered by induction over the per-operation contracts; a concrete '
                  'history is additionally run with 1 and 3 parties. unit_vector and comparisons are replaced by their contracts (C30, C01).',
                  assumptions=['contracts of unit_vector (C30) and sgn/is_zero (C01) as stubs', 'list lengths bounded as stated; element values symbolic in -2..2 (operations are polynomial identities in the contents)',
                               'only len() is used publicly except inside remove/index (eq_public), as documented'],
                  trusted_base=['z3 5.1', 'CPython 3.12 list semantics (oracle side)'])
