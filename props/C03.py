"""C03 - fixed-point integrality flags are never wrong (DESIGN §5 C03)."""
import time, itertools
from lib.common import run_tasks, finish

FLAGS = (True, None, False)


def tasks(tier):
    T = []
    types = [(8, 4)] if tier == 'quick' else [(8, 4), (6, 3), (9, 3), (8, 2)]
    def vi(name, params, func, bound):
        T.append(('sx.tasks', 'run_instance', ('sx.fxp', name, params, dict(k=2, no_prss=False), func, bound)))
    for l, f in types:
        b = f'(l,f)=({l},{f}); all representable values consistent with the flags, all stub-permitted randomness'
        for op in ('add', 'sub', 'mul', 'neg', 'pos', 'addc', 'addf', 'mulc', 'rmulc', 'sq', 'lshift1', 'lshiftf', 'abs'):
            ar = 2 if op in ('add', 'sub', 'mul') else 1
            for fl in itertools.product(FLAGS, repeat=ar):
                if op == 'abs' and l > 6: continue
                vi('fxp_op', dict(l=l, f=f, op=op, flags=fl), f'mpyc.runtime.Runtime({op})/SecureFixedPoint', b)
        for fl in itertools.product((True, None), repeat=2):
            vi('fxp_op', dict(l=l, f=f, op='if_else', flags=(True,) + fl), 'mpyc.runtime.Runtime.if_else', b)
        vi('fxp_op', dict(l=l, f=f, op='trunc', flags=(None,)), 'mpyc.runtime.Runtime.trunc', b)
        for k in range(8):
            vi('fxp_mulfloat', dict(l=l, f=f, idx=k), 'mpyc.runtime.Runtime.mul(float)', b)
        for kind in ('int', 'float'):
            vi('fxp_ctor', dict(l=l, f=f, kind=kind), 'mpyc.sectypes.SecureFixedPoint.__init__', b)
        # list functions: every assignment of flags to the two elements of each list (True / not known)
        for func in ('vector_add', 'vector_sub', 'scalar_mul', 'schur_prod', 'sum', 'in_prod', 'prod', 'matrix_prod', 'sum_start', 'sum_start_float', 'sum_start_int', 'prod_start'):
            for fl in itertools.product((True, None), repeat=4):
                vi('fxp_list', dict(l=l, f=f, func=func, flags=fl + (1,)), f'mpyc.runtime.Runtime.{func}', b)
        for func in ('if_else_list', 'if_swap_list'):
            for fl in itertools.product((True, None), repeat=4):
                for c in (0, 1):
                    vi('fxp_list', dict(l=l, f=f, func=func, flags=fl + (c,)), f'mpyc.runtime.Runtime._{func}', b)
    # comparisons and sign (results always flagged integral): small type, the real sgn forks on l opened bits
    for op in ('lt', 'ge', 'eq', 'sgn'):
        vi('fxp_op', dict(l=5, f=2, op=op, flags=(None, None)), f'mpyc.runtime.Runtime({op})', '(l,f)=(5,2)')
    for src, dst in ((('int', 6), ('fxp', 8, 2)), (('fxp', 8, 2), ('int', 6)), (('fxp', 6, 2), ('fxp', 8, 4)), (('fxp', 8, 4), ('fxp', 6, 2))):
        T.append(('sx.tasks', 'run_instance', ('sx.fxp', 'convert', dict(src=src, dst=dst), dict(k=2, no_prss=False), 'mpyc.runtime.Runtime._convert', f'{src}->{dst}')))
    # longer lists with individually marked elements (the internal bookkeeping of prod over its binary tree): bounded native
    from contracts import runtime_native as RN
    T += RN.tasks(tier, 'C03')
    return T


def run(tier, seed):
    t0 = time.time()
    obs = run_tasks(tasks(tier))
    return finish('C03', tier, seed, obs, 'other', t0,
                  explanation='data-structure invariant INT(x): x.integral is True -> value(x) = 0 mod 2^f, checked as a postcondition of every function '
                  'that declares a flag through returnType: the real functions run on symbolic fixed-point values (engine symx, value mode) for every '
                  'assignment of argument flags consistent with INT; the flag is read from the returned secure object, the value from the opened result; '
                  'results must also equal the exact value within the C02 bounds whatever the flags are. Bounded in (l,f) and list length 2.',
                  assumptions=['INT holds for the arguments (induction over the call structure)', 'contract stubs of random_bits / is_zero_public',
                               'SecureFloat and NumPy array variants not covered'],
                  trusted_base=['z3 5.1', 'CPython 3.12', 'sx/sym.py proxies'])
