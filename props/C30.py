"""C30 - bit-level oblivious building blocks are correct for all inputs (DESIGN §5 C30)."""
import time
from lib.common import run_tasks, finish
from sx.bits import FIND_VARIANTS


def tasks(tier):
    T = []
    def vi(name, params, func, bound, k=2, np_=False):
        T.append(('sx.tasks', 'run_instance', ('sx.bits', name, params, dict(k=k, no_prss=np_), func, bound)))
    ls = (3, 4) if tier == 'quick' else (2, 3, 4, 5, 6)
    for l in ls:
        for k, np_ in ((2, False), (3, True)):
            vi('to_bits', dict(l=l), 'mpyc.runtime.Runtime.to_bits', f'l={l}, k={k}; all l-bit values, all masks', k, np_)
        vi('to_bits', dict(l=l, lbits=max(1, l // 2)), 'mpyc.runtime.Runtime.to_bits', f'l={l}, lowest {max(1, l // 2)} bits')
        vi('from_bits', dict(l=l), 'mpyc.runtime.Runtime.from_bits', f'l={l}')
        vi('trailing_zeros', dict(l=l), 'mpyc.runtime.Runtime.trailing_zeros', f'l={l}')
        vi('trailing_zeros', dict(l=l, lbits=max(1, l // 2)), 'mpyc.runtime.Runtime.trailing_zeros', f'l={l}, explicit l={max(1, l // 2)} low bits of a full-range a')
        if l <= 5: vi('gcp2', dict(l=l), 'mpyc.runtime.Runtime.gcp2', f'l={l}')        # l = 6 exceeds the task limit (path explosion)
    vi('to_bits', dict(l=6, fxp=2), 'mpyc.runtime.Runtime.to_bits(fixed point)', '(l,f)=(6,2)')
    vi('to_bits', dict(l=6, fxp=2, integral=True), 'mpyc.runtime.Runtime.to_bits(fixed point, integral)', '(l,f)=(6,2)')
    def en(name, params, func, bound):
        T.append(('sx.tasks', 'run_instance_enum', ('sx.bits', name, params, dict(k=2, no_prss=False), func, bound)))
    for n in ((1, 2, 3, 4, 5, 6) if tier == 'quick' else range(1, 9)):
        if n <= 4: vi('add_bits', dict(l=8, n=n), 'mpyc.runtime.Runtime.add_bits', f'n={n}; all bit vectors (symbolic)')
        else: en('add_bits', dict(l=8, n=n), 'mpyc.runtime.Runtime.add_bits', f'n={n}; all bit vectors')
    for n in ((1, 2, 3, 5) if tier == 'quick' else range(1, 8)):
        for var in FIND_VARIANTS:
            if var == 'nobits' and n > 5: continue          # solver unknown at n = 7 (90 s); arbitrary inputs covered up to n = 5
            if n >= 5 and var != 'nobits': en('find', dict(l=8, n=n, variant=var), 'mpyc.runtime.Runtime.find', f'n={n}, variant {var}; all input vectors')
            else: vi('find', dict(l=8, n=n, variant=var), 'mpyc.runtime.Runtime.find', f'n={n}, variant {var}; all bit vectors (symbolic)')
    vi('find_empty', dict(l=8), 'mpyc.runtime.Runtime.find', 'empty list, 8 argument variants')
    for n in ((1, 2, 3, 4, 5, 7, 8, 9) if tier == 'quick' else range(1, 18)):
        if n <= 4: vi('unit_vector', dict(l=8, n=n), 'mpyc.runtime.Runtime.unit_vector', f'n={n}; all 0 <= a < n (symbolic)')
        else: en('unit_vector', dict(l=5, n=n), 'mpyc.runtime.Runtime.unit_vector', f'n={n}; all 0 <= a < n and all masks, SecInt(5)')
    return T


def run(tier, seed):
    t0 = time.time()
    obs = run_tasks(tasks(tier))
    return finish('C30', tier, seed, obs, 'other', t0,
                  explanation='bounded contract verification in value mode (engine symx): the real add_bits, to_bits (secint, secfxp, partial), from_bits, find (all '
                  'documented combinations of bits/e/f/cs_f incl. a secret needle and the empty list), unit_vector, trailing_zeros and gcp2 run on symbolic bit '
                  'vectors / values and symbolic masks; results compared with integer bit semantics for every input of the stated length.',
                  assumptions=['contract stubs of random_bits / is_zero_public / _reshare / output (degree ghost on)', 'bit lengths and vector lengths bounded as stated'],
                  trusted_base=['z3 5.1', 'CPython 3.12', 'sx/sym.py proxies'])
