"""C26 - generated field primes meet their size, Blum and root-of-unity constraints (finfields.find_prime_root, sectypes._pfield)."""
import time
from lib.common import run_tasks, finish


def run(tier, seed):
    t0 = time.time()
    from contracts.finfields import C26_NATIVES
    tasks = [('lib.native', 'run_natives', ('contracts.finfields', [n], tier)) for n in C26_NATIVES]
    obs = run_tasks(tasks)
    return finish('C26', tier, seed, obs, 'other', t0,
                  explanation='bounded contract evaluation on the real find_prime_root(l, blum, n) and on SecInt(l[,p,n]) / SecFxp(l,f[,p,n]) (which call _pfield) under the '
                              'default one-party runtime with sec_param k in {2,8,30}: p prime (own Miller-Rabin), bit length >= l and == l for n <= 2, p = 3 mod 4 when blum, '
                              'returned order n\' >= requested n, n\' | p-1, w in (0,p) of multiplicative order exactly n\' (w = 1 for n\' = 1, w = p-1 for n\' = 2); '
                              'field order of the secure types > 2^(l+f+k+1) and > number of parties; a given p is rejected with ValueError exactly when p <= 2^(l+f+k+1).',
                  assumptions=['AssertionError is accepted for the argument combinations the code itself guards by assert (n > 2 with blum=False; l <= 2, blum=False, n != 1)',
                               'Miller-Rabin with the first 12 prime bases is a proof below 3.3e24; for larger p the first 50 prime bases are used (error < 4^-50)',
                               'runtime: m = 1 party, threshold 0 (the clause "larger than the number of parties" is exercised for m = 1 only)',
                               'bounded: l <= 64 (thorough 256 for find_prime_root, 128 for the secure types)'],
                  trusted_base=['CPython 3.12 pow with three arguments (oracle side)'])
