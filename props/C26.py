"""C26 - generated field primes meet their size, Blum and root-of-unity constraints (finfields.find_prime_root, sectypes._pfield)."""
import time
from lib.common import run_tasks, finish


def run(tier, seed):
    t0 = time.time()
    from contracts.finfields import C26_NATIVES
    tasks = [('lib.native', 'run_natives', ('contracts.finfields', [n], tier)) for n in C26_NATIVES]
    # proved part (engine A): find_prime_root, one contract per branch, relative to the contracts of is_prime / prev_prime / next_prime / powmod
    tasks += [('vc.tasks', 'run_contract', ('contracts.finfields_fpr', a, 'contracts.finfields:' + nat, tier))
              for a, nat in (('fpr_tiny', 'fpr_l2'), ('fpr_n_le_2', 'fpr_n12'), ('fpr_n_gt_2', 'fpr_root'))]
    # the callee contracts the proof is relative to, evaluated on the real helpers (same obligations as under C25): a defect in the primality test
    # breaks this property through find_prime_root
    tasks += [('lib.native', 'run_natives', ('contracts.gmpy', [n], tier)) for n in ('is_prime', 'next_prime', 'prev_prime', 'powmod')]
    obs = run_tasks(tasks)
    return finish('C26', tier, seed, obs, 'other', t0,
                  explanation='engine A proves find_prime_root for ALL l and n, branch by branch, relative to the contracts of gmpy2.is_prime / prev_prime / next_prime / powmod '
                              '(C25): l <= 2: the constant triples; n <= 2: p prime, 3 <= p < 2^l, p = 3 mod 4 when blum, n unchanged, w = p-1 (w != 1, w^2 = 1 mod p) for n = 2 else 1; '
                              'n > 2: n\' prime >= n, p prime, p > 2^(l-1) (bit length >= l), p = 1 mod 2n\', p = 3 mod 4, 0 <= w < p, w != 1. Not proved: bit length exactly l for n <= 2, '
                              'w^n\' = 1 (Fermat), termination. In addition, bounded contract evaluation on the real find_prime_root(l, blum, n) and on SecInt(l[,p,n]) / SecFxp(l,f[,p,n]) (which call _pfield) under the '
                              'default one-party runtime with sec_param k in {2,8,30}: p prime (own Miller-Rabin), bit length >= l and == l for n <= 2, p = 3 mod 4 when blum, '
                              'returned order n\' >= requested n, n\' | p-1, w in (0,p) of multiplicative order exactly n\' (w = 1 for n\' = 1, w = p-1 for n\' = 2); '
                              'field order of the secure types > 2^(l+f+k+1) and > number of parties; a given p is rejected with ValueError exactly when p <= 2^(l+f+k+1).',
                  assumptions=['elementary facts about primes used as axioms of the proof: 2, 3 prime; 0, 1 and even numbers above 2 not prime; 2^l >= 8 for l >= 3; 2^(l-1) = 4 * 2^(l-3)',
                               'AssertionError is accepted for the argument combinations the code itself guards by assert (n > 2 with blum=False; l <= 2, blum=False, n != 1)',
                               'Miller-Rabin with the first 12 prime bases is a proof below 3.3e24; for larger p the first 50 prime bases are used (error < 4^-50)',
                               'runtime: m = 1 party, threshold 0 (the clause "larger than the number of parties" is exercised for m = 1 only)',
                               'bounded: l <= 64 (thorough 256 for find_prime_root, 128 for the secure types)'],
                  trusted_base=['CPython 3.12 pow with three arguments (oracle side)'])
