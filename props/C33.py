"""C33 - secure random functions (mpyc/random.py): documented range/shape, uniform probabilities."""
import time
from lib.common import run_tasks, finish

MOD = 'contracts.random_native'
# number of slices of the input domain of the heavier natives (default 1); the edge_* natives are bundled in two tasks
SLICES = {'uni_shuffle': 4, 'uni_permutation': 4, 'uni_derangement': 4, 'uni_sample_list': 4, 'uni_sample_range': 4, 'randrange': 2, 'choices': 2,
          'sample': 3, 'shuffle': 2, 'random_derangement': 2}


def run(tier, seed):
    t0 = time.time()
    import contracts.random_native as M
    edge = [n for n in M.NATIVE if n.startswith('edge_')]
    rest = [n for n in M.NATIVE if not n.startswith('edge_')]
    rest.sort(key=lambda n: (not n.startswith('uni_'), -SLICES.get(n, 1)))        # heavy enumerations first: balanced pool
    tasks = []
    for name in rest:
        k = SLICES.get(name, 1)
        tasks += [(MOD, 'run_slice', (name, tier, i, k)) for i in range(k)]
    tasks += [('lib.native', 'run_natives', (MOD, edge[i::2], tier)) for i in range(2)]
    obs = run_tasks(tasks)
    return finish('C33', tier, seed, obs, 'other', t0,
                  explanation='bounded contract evaluation of mpyc/random.py on the real functions with the m = 1 runtime. (1) range/shape: every function is run on a grid of '
                              'arguments with 20 (thorough 200) deterministic PRSS seeds each; results must be secure objects of the requested type with the documented '
                              'range/shape (unit vector, permutation, derangement, sample without repetition, bounds), argument errors as Python\'s random module; population '
                              'sizes 0 and 1 in separate edge_* obligations. (2) uniformity: runtime.random_bits/random_bit are stubbed for callers inside mpyc.random '
                              'by a prescribed bit string; ALL bit strings are enumerated depth first up to L bits (three trials of every rejection stage); at every number of '
                              'consumed bits the numbers of bit strings per outcome are exactly proportional to the documented probabilities (exact fractions), all documented '
                              'outcomes occur, every leaf satisfies the range/shape contract, and the truncated mass does not exceed that of the restart-all reference process; '
                              'this decides the uniformity claim for the enumerated n given uniformly random independent secret bits',
                  assumptions=['single-party runtime (m = 1, synchronous coroutines): the code of mpyc/random.py is the same for every m, the secret bits are the only randomness that '
                               'enters the outcome', 'runtime.random_bits delivers independent uniform bits (property of the runtime, not of mpyc.random)',
                               'randomness of runtime._random (only used by _randbelow for a secure finite field with n = field order) and of the masks inside comparisons / '
                               'is_zero_public is not enumerated; is_zero_public errs with probability 1/|field|',
                               'np_random_unit_vector not covered (NumPy disabled in the check environment)'],
                  trusted_base=['CPython 3.12', 'itertools/fractions on the oracle side', 'mpyc runtime arithmetic (add, mul, output) for m = 1'])
