"""C33 - secure random functions (mpyc/random.py): documented range/shape, uniform probabilities."""
import time
from lib.common import run_tasks, finish

MOD = 'contracts.random_native'
# (native, number of slices of its input domain)
REAL = [('randrange', 2), ('randint', 1), ('random_unit_vector', 1), ('choice', 1), ('choices', 2), ('sample', 3), ('shuffle', 2),
        ('random_permutation', 1), ('random_derangement', 2), ('getrandbits', 1), ('random', 1), ('uniform', 1)]
ENUM = [('uni_randrange', 1), ('uni_randint', 1), ('uni_unit_vector', 1), ('uni_choice', 1), ('uni_choices', 1), ('uni_shuffle', 4),
        ('uni_permutation', 4), ('uni_derangement', 4), ('uni_sample_list', 4), ('uni_sample_range', 4), ('uni_getrandbits', 1),
        ('uni_random', 1), ('uni_uniform', 1)]


def run(tier, seed):
    t0 = time.time()
    import contracts.random_native as M
    edge = [n for n in M.NATIVE if n.startswith('edge_')]
    tasks = []
    # heavy enumerations first so that the pool is balanced
    for name, k in ENUM + REAL:
        tasks += [(MOD, 'run_slice', (name, tier, i, k)) for i in range(k)]
    tasks += [('lib.native', 'run_natives', (MOD, edge[i::2], tier)) for i in range(2)]
    obs = run_tasks(tasks)
    return finish('C33', tier, seed, obs, 'other', t0,
                  explanation='bounded contract evaluation of mpyc/random.py on the real functions with the m = 1 runtime. (1) range/shape: every function is run on a grid of '
                              'arguments with 20 (thorough 200) deterministic PRSS seeds each; results must be secure objects of the requested type with the documented '
                              'range/shape (unit vector, permutation, derangement, sample without repetition, bounds), argument errors as Python\'s random module; population '
                              'sizes 0 and 1 in separate edge_* obligations. (2) uniformity: runtime.random_bits/random_bit are stubbed for callers inside mpyc.random '
                              'by a prescribed bit string; ALL bit strings are enumerated depth first up to L bits (three trials of every rejection stage); at every number of '
                              'consumed bits the numbers of bit strings per outcome are exactly proportional to the documented probabilities (exact fractions), all documented '
                              'outcomes occur, every leaf satisfies the range/shape contract, and the truncated mass does not exceed that of the restart-all reference process; '
                              'this decides the uniformity claim for the enumerated n given uniformly random independent secret bits',
                  assumptions=['single-party runtime (m = 1, synchronous coroutines): the code of mpyc/random.py is the same for every m, the secret bits are the only randomness that '
                               'enters the outcome', 'runtime.random_bits delivers independent uniform bits (property of the runtime, not of mpyc.random)',
                               'randomness of runtime._random (only used by _randbelow for a secure finite field with n = field order) and of the masks inside comparisons / '
                               'is_zero_public is not enumerated; is_zero_public errs with probability 1/|field|',
                               'np_random_unit_vector not covered (NumPy disabled in the check environment)'],
                  trusted_base=['CPython 3.12', 'itertools/fractions on the oracle side', 'mpyc runtime arithmetic (add, mul, output) for m = 1'])
