"""C32 - mpctools.reduce / mpctools.accumulate equal functools.reduce / itertools.accumulate; logarithmic depth."""
import time
from lib.common import run_tasks, finish


def run(tier, seed):
    t0 = time.time()
    import contracts.mpctools as C
    tasks = [('lib.native', 'run_natives', ('contracts.mpctools', [n], tier)) for n in reversed(C.native_names(tier))]
    obs = run_tasks(tasks)
    return finish('C32', tier, seed, obs, 'other', t0,
                  explanation='bounded executable contracts on the real mpctools.reduce/accumulate: the functions are run with f = concatenation '
                              'on the free monoid over generators x_i = (i,) (every associative f, commutative or not, factors through this model '
                              'and the functions are parametric in f, so equality with functools.reduce / itertools.accumulate on this model for a '
                              'given number of items is equality for every associative f and every input of that length); a second instrumented '
                              'run makes f carry 1 + max(depth), counts applications and checks that operands are adjacent segments in order. '
                              'Obligations: result equality (two oracles: the standard library and the written-out definition), TypeError on empty '
                              "input without initial, ValueError exactly for method not in {None, 'Brent-Kung', 'Sklansky'}, depth <= ceil(log2 N) "
                              'for reduce and Sklansky, <= max(2 ceil(log2 N) - 2, ceil(log2 N)) for Brent-Kung and the default, number of '
                              'applications N-1 for reduce, 2N-2-k resp. (N/2)k for N = 2^k as documented in the source comments (and at most the '
                              'value for the next power of two otherwise), argument list not modified, result of accumulate is a one-pass iterator',
                  assumptions=['strength B: number of items bounded (0..64 quick, 0..512 thorough); completeness over f rests on parametricity of '
                               'the two functions in f (they do not inspect items), which is read off the 30 lines of source, not proved',
                               'f is assumed associative by the property; the instrumented f (with depth) is associative on the word component only',
                               'default heuristic: exercised with runtime.options.no_prss False and True; the contract only requires the '
                               'documented bounds of one of the two methods',
                               'complexity figures are taken from the comments inside accumulate (the docstring only says "logarithmic")'],
                  trusted_base=['CPython 3.12 functools.reduce, itertools.accumulate, tuple concatenation'])
