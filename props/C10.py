"""C10 - message framing tolerates any stream chunking and arrival order (DESIGN §5 C10)."""
import time
from lib.common import run_tasks, finish

A = [('contracts.asyncoro', a, 'contracts.asyncoro_native:framing') for a in ('data_received', 'data_received_hs_prss', 'data_received_hs_noprss', 'send', 'receive')] + \
    [('contracts.runtime_keys', a, None) for a in ('to_peer', 'from_peer_len', 'from_peer_data')]


def tasks(tier):
    T = [('vc.tasks', 'run_contract', (m, a, n, tier)) for m, a, n in A]
    T += [('lib.native', 'run_natives', ('contracts.asyncoro_native', [n], tier)) for n in ('framing', 'truncated')]
    from props import _mp
    T += _mp.handshake(tier)
    return T


ASSUME = ['struct.pack/unpack_from codec for the formats used (<qI, <n>s): unpack(pack(v)) == v, modelled by uninterpreted decoders of the byte values',
          'bytearray/bytes as windows over the append-only stream of the connection; bytearray.extend appends the next stream bytes',
          'itertools.combinations enumerates the same subsets in the same order on both sides',
          'termination not proved (partial correctness); Python int = mathematical integer']


def run(tier, seed):
    t0 = time.time()
    obs = run_tasks(tasks(tier))
    return finish('C10', tier, seed, obs, 'other', t0,
                  explanation='deductive verification (engine A, strength P: all streams, all chunk boundaries, all m, t, pids) of the real MessageExchanger.send '
                  '(one frame le8(pc)|le4(len)|payload appended, nbytes_sent), data_received (post-handshake: class invariant "consumed position = start of the first '
                  'incomplete frame, every complete frame handed over exactly once with its own label and payload window", which mentions no chunk boundary; '
                  'handshake branch: nothing consumed until 2 + key-packet bytes are present, then peer id, keys read from offset 2, registration, then frames), '
                  'receive (buffered payload returned and label removed, else fresh future stored; no other label touched), and of the key packet helpers '
                  '_prss_keys_to_peer/_prss_keys_from_peer (j-th 16-byte block <-> j-th matching subset on both sides). Cross-checked on the real objects over '
                  'enumerated chunkings and by the m-party handshake runs (B).',
                  assumptions=ASSUME, trusted_base=['z3 5.1 / cvc5 1.0.3 / z3 4.8.12', 'CPython struct, bytearray'])
