"""C16 - PRSS keys are shared exactly among each subset's members (DESIGN §5 C16)."""
import time
from lib.common import run_tasks, finish
from props import _mp


def run(tier, seed):
    t0 = time.time()
    obs = run_tasks(_mp.handshake(tier))
    return finish('C16', tier, seed, obs, 'other', t0,
                  explanation='the real threshold setter (key generation), the real client-side connection_made/_prss_keys_to_peer, and the real server-side '
                  'data_received/_prss_keys_from_peer/set_protocol are run for all m parties and all pairs of parties; the byte stream is delivered whole, '
                  'byte by byte and split, in both connection orders, followed by a framed message in the same stream. Postcondition over the m key dicts: for '
                  'every (m-t)-subset all members hold one key, no non-member holds it, keys of different subsets differ, every t-coalition lacks the key of '
                  'its complement; the start future completes once all peers are registered. Bounded in (m,t).',
                  assumptions=['secrets.token_bytes replaced by a generator of pairwise distinct byte strings', 'transport replaced by an in-memory buffer'],
                  trusted_base=_mp.MP_TRUST)
