"""C23 - polynomials over GF(p) (mpyc/gfpx.py): ring laws, division, gcd/gcdext/invert/powmod, binary vs list representation."""
import time
from lib.common import run_tasks, finish

MOD = 'contracts.gfpx'
# natives whose quick-tier domain takes seconds: one pool task each, longest first; the rest is dealt round-robin over LIGHT_TASKS tasks
HEAVY = [f'{o}.{r}' for o in ('gcdext', 'invert', 'gcd', 'ring_laws', 'divmod', 'floordiv', 'mod', 'mul', 'powmod_pos', 'add', 'sub', 'compare', 'powmod_neg')
         for r in ('odd7', 'odd35')]
LIGHT_TASKS = 12


def run(tier, seed):
    t0 = time.time()
    import contracts.gfpx as M
    names = M.names('C23')
    heavy = [n for n in HEAVY if n in names]
    light = [n for n in names if n not in heavy]
    tasks = [('lib.native', 'run_natives', (MOD, [n], tier)) for n in heavy]
    tasks += [('lib.native', 'run_natives', (MOD, light[i::LIGHT_TASKS], tier)) for i in range(LIGHT_TASKS) if light[i::LIGHT_TASKS]]
    # engine A: the linear-time list operations proved for every prime p and all coefficient lists (contracts/gfpx_a.py); a refutation is looked up in
    # the bounded native of the same operation for a concrete failing input
    tasks += [('vc.tasks', 'run_contract', ('contracts.gfpx_a', a, f'contracts.gfpx:{a}.odd7', tier)) for a in ('neg', 'add', 'sub')]
    tasks += [('vc.tasks', 'run_contract', ('contracts.gfpx_a', a, f'contracts.gfpx:{n}', tier)) for a, n in (('lshift', 'lshift.odd7'), ('rshift', 'rshift.odd7'), ('from_list', 'truncate.odd7'), ('truncate', 'truncate.odd7'), ('call', 'evaluate.odd7'))]
    obs = run_tasks(tasks)
    return finish('C23', tier, seed, obs, 'other', t0,
                  explanation='engine A (AST -> VCs -> z3) proves Polynomial._neg/_add/_sub/_lshift/_rshift/_from_list/_truncate (the last against the contract of its callee _from_list) and __call__ (Horner evaluation: result is the reduced representative of the Horner value at x mod p, with an explicit ghost witness) against coefficient-wise contracts in witness form (c == x + y or x + y - p, 0 <= c < p), '
                              'the representation invariant of the result (reduced, no trailing zero, every stripped position zero in the sum) and the frame (operand lists unchanged), for all p > 1 and all lists; '
                              'everything else: bounded exhaustive enumeration of executable contracts on the real functions of mpyc/gfpx.py under CPython: every public '
                              'operator/method (+ - * // % divmod << >> ** unary -, comparisons, hash, gcd, gcdext, invert, powmod, mod, degree, indexing, '
                              'evaluation, int/str/list/tuple coercions, to_bytes, reverse, monic, truncate, deriv, class methods, int-on-either-side mixed '
                              'operands, ring laws on triples) is called on ALL polynomials / pairs / triples of the stated small degrees over '
                              'p in {2,3,5,7,11} (thorough also 13) and compared with an independent reference implementation on plain coefficient lists '
                              '(schoolbook convolution, long division, Euclid; gcd additionally from its definition by trying every monic candidate divisor); '
                              'one obligation per (operation, representation): BinaryPolynomial, the generic list class instantiated with p = 2, and '
                              'the list classes for odd p; "agree.*" obligations compare the two p = 2 representations directly on all polynomials of degree <= 6; '
                              'each result is also checked for the representation invariant and operands for not being mutated',
                  assumptions=['bounded: only the stated degrees and primes are enumerated (bounds are listed per obligation)',
                               'polynomials are named by their base-p integer encoding; ints coerce by base-p digits, negative ints to the negated polynomial (as _from_int documents)',
                               'documented preconditions kept: shift counts n >= 0, powmod modulus nonzero',
                               'a ** n with n < 0 must raise ValueError; powmod(a, n, b) must be reduced modulo b for every n (1 mod b for n = 0), negative n via the inverse',
                               'reference implementation (contracts/gfpx.py r_*) is written for the check and uses only Python ints/lists and pow(x, -1, p)'],
                  trusted_base=['engine A encoding of Python lists (array + length, slice and + allocate new objects, del a[-1], enumerate) and mathematical integers', 'CPython 3.12 int/list semantics, pow(x, -1, p), int.to_bytes (oracle side)', 'lib.native enumeration harness'])
