"""C34 - secure statistics (mpyc/statistics.py) against Python's statistics module."""
import time
from lib.common import run_tasks, finish

MOD = 'contracts.statistics_native'
# number of slices of the input domain of the heavier natives (default 1); errors_* are bundled in two tasks
SLICES = {'quantiles_excl_int': 4, 'quantiles_incl_int': 4, 'mode_unique_int': 2, 'median_int': 4, 'median_low_int': 4, 'median_high_int': 4,
          'quantiles_excl_fxp': 2, 'quantiles_incl_fxp': 2, 'stdev_fxp': 2, 'pstdev_fxp': 2, 'correlation_fxp': 3, 'covariance_int': 2}


def run(tier, seed):
    t0 = time.time()
    import contracts.statistics_native as M
    small = [n for n in M.NATIVE if n.startswith(('errors_', 'plain_'))]
    rest = [n for n in M.NATIVE if n not in small]
    # heavy ones first: balanced pool; mode_ties_* is not sliced (one stable witness key for the documented-tie-rule finding)
    rest.sort(key=lambda n: (not n.startswith('mode_ties'), -SLICES.get(n, 1)))
    tasks = []
    for name in rest:
        k = SLICES.get(name, 1) * (1 if tier == 'quick' or name.startswith('mode_ties') else 3 if name.startswith('quantiles') else 2)
        tasks += [(MOD, 'run_slice', (name, tier, i, k)) for i in range(k)]
    tasks += [(MOD, 'run_group', (small[i::2], tier)) for i in range(2)]
    obs = run_tasks(tasks)
    return finish('C34', tier, seed, obs, 'other', t0,
                  explanation='bounded contract evaluation of mpyc/statistics.py on the real functions with the m = 1 runtime against Python\'s statistics module on exact '
                              'Fractions. Secure integers: all tuples of length <= 4 over -3..3 (thorough: length 5) plus deterministic larger data sets with duplicates; mean, '
                              'variance, pvariance, covariance, even-length median and every quantile (n = 2..6, both methods) must be the exact value rounded to the nearest '
                              'integer (documented rule; no tie rule documented, both neighbours accepted at distance 1/2), median_low/median_high/mode exactly Python\'s '
                              'value (mode on ties: the first encountered, as documented), stdev/pstdev the integer square root of the rounded variance. Fixed point '
                              '(SecFxp(32,16), SecFxp(16,8)): enumerated data on the 1/4 and 1/16 grids; the result must lie in the interval obtained by propagating the '
                              'unit bounds of C02 (product 1u, public float factor 2(1+|x|)u, secret division 16(1+|a|+|a/b|)u, bisection square root) through the documented '
                              'formula. Randomised selection (_quickselect) is run with 3 PRSS seeds per case. Errors (StatisticsError/ValueError/TypeError) must match Python '
                              'on the same data. Plain (non-secure) data is outside the property and not checked',
                  assumptions=['single-party runtime (m = 1): the code of mpyc/statistics.py is the same for every m; the secure operators it calls are covered by C01/C02/C29/C30',
                               'preconditions taken from Python: correlation needs non-constant x and y, linear_regression non-constant x (Python raises StatisticsError; the '
                               'secure version cannot branch on secret data); mode of fixed-point data needs integral values',
                               'fixed-point tolerances are derived, not documented: no docstring of mpyc/statistics.py states an error bound',
                               'data ranges chosen so that no intermediate value overflows the secure type'],
                  trusted_base=['CPython 3.12 statistics, fractions, math.isqrt, math.sqrt (oracle side)', 'mpyc runtime arithmetic for m = 1'])
