"""C39 - secure type and configuration parameters are valid (SecFld argument routes, lifting, field size vs parties, threshold gate)."""
import time
from lib.common import run_tasks, finish

NATIVES = ['secfld_args_nomod', 'secfld_args_intmod', 'secfld_args_polymod', 'secfld_args_strmod', 'secfld_args_degree_conflict',
           'secfld_min_order_prime', 'secfld_min_order_char', 'secfld_min_order_char_powers', 'secfld_lifting', 'field_larger_than_parties',
           'setup_threshold', 'setup_assert_structure', 'threshold_setter']


def run(tier, seed):
    t0 = time.time()
    tasks = [('lib.native', 'run_natives', ('contracts.secfld', [n], tier)) for n in NATIVES]
    obs = run_tasks(tasks)
    return finish('C39', tier, seed, obs, 'other', t0,
                  explanation='bounded exhaustive contract evaluation on the real functions: SecFld is called with every combination of order (prime powers <= 64 and '
                              'non-prime-powers), modulus (ints, gfpx polynomial objects, strings; irreducible and reducible), char, ext_deg, min_order, signed; the meaning of '
                              'the arguments is taken from the docstring (independent specification o_spec): inconsistent requests must raise AssertionError/ValueError/TypeError, '
                              'consistent ones must return a type whose field has exactly the requested order, characteristic, degree and modulus and is a field; min_order '
                              'routes return the least admissible order; lifting: _SecFld under stand-in runtimes for all (m,t), m <= 9: extension of the same characteristic with '
                              'order > m, subfield = requested field, output conversion back to it; SecInt/SecFxp fields under stand-in runtimes with up to 255 parties: refused or '
                              'order > m; threshold gate: real setup() on command lines with m = 1..9 parties (-P addresses, no processes) and thresholds 0..9, AST check that '
                              'the assert dominates the only Runtime(...) creation, default threshold (m-1)//2; Runtime.threshold setter',
                  assumptions=['type construction under stand-in runtime objects exposing threshold / parties / options.sec_param (what sectypes reads); the real m = 1 runtime elsewhere',
                               'assert statements are enabled (the threshold gate and several argument checks of SecFld are asserts: under python -O they vanish; the check reports that case)',
                               'extension base fields with m >= q and t > 0: the AssertionError of the explicit TODO in _SecFld is accepted (or a valid lifting)',
                               'defaults not spelled out in the docstring are taken as: degree 1 ("prime by default"), characteristic 2 when nothing fixes it (SecFld() is GF(2))',
                               'a polynomial modulus with a non-monic leading coefficient counts as consistent when it is irreducible (finfields.GF: "irreducible polynomial")',
                               'dominance in setup() is checked syntactically: same block, assert before the Runtime assignment, no assignment to m/parties/options in between'],
                  trusted_base=['CPython 3.12 (ast, compile, eval of the asserted expression)', 'oracle primality by trial division / Miller-Rabin and irreducibility by trial division (contracts/finfields.py)'])
