"""C02 - secure fixed-point arithmetic stays within its rounding bounds (DESIGN §5 C02)."""
import time, itertools
from lib.common import run_tasks, finish


def tasks(tier):
    T = []
    types = [(8, 4), (6, 2)] if tier == 'quick' else [(4, 2), (8, 4), (9, 3), (8, 2), (7, 3)]
    def vi(name, params, func, bound, k=2, np_=False):
        T.append(('sx.tasks', 'run_instance', ('sx.fxp', name, params, dict(k=k, no_prss=np_), func, bound)))
    for l, f in types:
        for k, np_ in ((2, False), (3, True)):
            b = f'(l,f,k)=({l},{f},{k}); all representable values, all stub-permitted randomness'
            vi('fxp_op', dict(l=l, f=f, op='trunc', flags=(None,)), 'mpyc.runtime.Runtime.trunc', b, k, np_)
            for op in ('add', 'sub', 'neg', 'mul', 'mulc', 'rmulc', 'sq', 'addc', 'addf'):
                vi('fxp_op', dict(l=l, f=f, op=op, flags=(None, None)), f'mpyc.runtime.Runtime({op})', b, k, np_)
            for i in range(8):
                vi('fxp_mulfloat', dict(l=l, f=f, idx=i), 'mpyc.runtime.Runtime.mul(public float)', b, k, np_)
        for func in ('scalar_mul', 'schur_prod', 'in_prod', 'prod', 'matrix_prod', 'sum', 'vector_add', 'vector_sub'):
            vi('fxp_list', dict(l=l, f=f, func=func, flags=(None, None, None, None, 1)), f'mpyc.runtime.Runtime.{func}', f'(l,f)=({l},{f}), lists of 2')
    for l, f in ([(5, 2)] if tier == 'quick' else [(5, 2), (6, 3), (7, 2)]):
        for op in ('lt', 'ge', 'eq', 'sgn', 'abs'):
            vi('fxp_op', dict(l=l, f=f, op=op, flags=(None, None)), f'mpyc.runtime.Runtime({op})', f'(l,f)=({l},{f}); comparisons exact')
    try:
        from contracts import runtime_native as RN
        T += RN.tasks(tier, 'C02')
    except ImportError:
        pass
    return T


def run(tier, seed):
    t0 = time.time()
    obs = run_tasks(tasks(tier))
    return finish('C02', tier, seed, obs, 'other', t0,
                  explanation='bounded contract verification: trunc carries the property (result is floor or ceiling of a/2^f, exact when 2^f | a, for every '
                  'a in the signed (l+f)-bit range and every mask the callee contracts allow) and is verified on symbolic values from the real body; '
                  '+,-,neg, comparisons exact; products within one unit; public-float factors within 2(1+|x|) units against the exact rational of the '
                  'same float; all on symbolic values (engine symx). Division, reciprocal, sin/cos and powers are evaluated on enumerated small types (bounded).',
                  assumptions=['contract stubs of random_bits / is_zero_public', 'Python float -> exact rational via fractions.Fraction',
                               'division, reciprocal, sin/cos, x**n: enumerated inputs on small (l,f), sampled protocol randomness'],
                  trusted_base=['z3 5.1', 'CPython 3.12', 'sx/sym.py proxies'])
