"""C29 - secure sorting and selection are correct for every input order (DESIGN §5 C29)."""
import time
from lib.common import run_tasks, finish


def tasks(tier):
    T = []
    ns = list(range(2, 33)) if tier == 'quick' else list(range(2, 129))
    for i in range(0, len(ns), 8):
        T.append(('sx.sortnet', 'sort_01_many', (ns[i:i + 8],)))
    l, k = 5, 2
    for n in ((2, 3, 4, 5) if tier == 'quick' else (2, 3, 4, 5, 6, 7, 8)):
        for op in ('sorted', 'sorted_rev', 'min', 'max', 'min_max', 'argmin', 'argmax'):
            if op.startswith('sorted') and n > 3: continue
            T.append(('sx.tasks', 'run_instance', ('sx.protocols', 'list_op', dict(l=l, op=op, n=n), dict(k=k, no_prss=False), f'mpyc.runtime.Runtime.{op}',
                                                   f'l={l}, n={n}; all input orders incl. ties (symbolic); comparisons by the sgn contract')))
    for n in ((2, 3, 4, 5) if tier == 'quick' else (2, 3, 4, 5, 6)):          # n = 7 with a key: solver unknown at 90 s
        for op in ('min_neg', 'max_neg', 'min_max_neg', 'argmin_neg', 'argmax_neg', 'sorted_neg', 'min_sq', 'max_sq', 'argmax_sq'):
            if op.startswith('sorted') and n > 3: continue
            if op.endswith('_sq') and n > 4: continue
            T.append(('sx.tasks', 'run_instance', ('sx.protocols', 'list_op', dict(l=l, op=op, n=n), dict(k=k, no_prss=False), f'mpyc.runtime.Runtime.{op.rsplit("_", 1)[0]} (key)',
                                                   f'l={l}, n={n}; key = {"negation" if op.endswith("_neg") else "squaring (values -3..3)"}; all input orders incl. ties (symbolic)')))
    for n in (2, 3):
        for op in ('sort', 'sort_rev'):
            T.append(('sx.tasks', 'run_instance', ('sx.seclist_inst', 'seclist', dict(l=6, n=n, op=op), dict(k=k, no_prss=False), 'mpyc.seclists.seclist.sort', f'n={n}')))
    return T


def run(tier, seed):
    t0 = time.time()
    obs = run_tasks(tasks(tier))
    return finish('C29', tier, seed, obs, 'other', t0,
                  explanation='(i) the REAL Runtime._sort is executed on tokens carrying Booleans with `<` and if_swap replaced by their contracts: its control flow is '
                  'data independent and, by the 0-1 principle, one SAT query per n decides that the comparator network sorts EVERY input order (and preserves the '
                  'multiset) for all n up to the bound; (ii) sorted (both directions), seclist.sort, min, max, min_max, argmin, argmax (index of the FIRST extreme '
                  'element and its value) run for real on symbolic integers incl. ties, comparisons by the sgn contract (verified under C01), if_else/if_swap real.',
                  assumptions=['0-1 principle for comparator networks', 'contracts of `<` (sgn) and if_swap/if_else as verified under C01', 'key functions: identity, negation and squaring',
                               'NumPy np_sort not covered'],
                  trusted_base=['z3 5.1', 'CPython 3.12'])
