"""C12 - Shamir split and recombine are inverse for all fields and thresholds (DESIGN §5 C12)."""
import time
from lib.common import run_tasks, finish
from props import _thresha as T


def run(tier, seed):
    t0 = time.time()
    tasks = T.a_tasks([('random_split_int', 'contracts.thresha_native:split_polynomial:GF(7)'), ('random_split_field', 'contracts.thresha_native:split_polynomial:GF(7)'),
                       ('recombination_vector', 'contracts.thresha_native:recombination_vector:GF(7)'),
                       ('recombine_scalar_int', 'contracts.thresha_native:split_recombine:GF(7):raw'), ('recombine_scalar_field', 'contracts.thresha_native:split_recombine:GF(7):elt'),
                       ('recombine_list_int', 'contracts.thresha_native:split_recombine:GF(7):raw'), ('recombine_list_field', 'contracts.thresha_native:split_recombine:GF(7):elt')], tier)
    tasks += T.lean([('L1_lagrange.lean', 'shamir_recombine', 'sum_i f(x_i) * basis_i(x) = f(x) for deg f < #points: recombination of >= t+1 shares gives f(x)'),
                     ('L2_horner.lean', 'horner_eval', 'Horner recursion of random_split = sum_j c_j x^(t-j)'),
                     ('L2_horner.lean', 'sharePoly_degree', 'the sharing polynomial has degree <= t and constant term s'),
                     ('L5_L6_L7_extra.lean', 'euclid_instance', 'Euclid lemma instance used for "denominator nonzero" in _recombination_vector')], tier)
    tasks += T.natives(tier, 'C12')
    obs = run_tasks(tasks)
    return finish('C12', tier, seed, obs, 'other', t0,
                  explanation='contract-based deductive verification (engine A, strength P, unbounded in m, t, number of secrets, field size) of the real '
                  'random_split (shares[i][h] = (Horner(c_h, t, i+1) + s_h) mod p, both argument types), _recombination_vector (vector[i] * D_i = N_i mod p '
                  'with N_i, D_i the Lagrange numerator/denominator products; division precondition from distinctness and primality) and recombine '
                  '(sums[r][h] = sum_i share_i[h] * vector[r][i], reduced for field elements; scalar and list x_rs); Lean lemmas L1, L2 turn these into '
                  '"any >= t+1 shares recombine to f(x)". Extension and binary fields, _f_S_i and the end-to-end statement are additionally checked by '
                  'bounded exhaustive enumeration on the real functions (B).',
                  assumptions=T.A_ASSUME + ['NumPy variants (np_random_split, np_recombine) not covered (NumPy absent)'], trusted_base=T.A_TRUST)
