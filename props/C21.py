"""C21 - field square roots and quadratic-residue tests (mpyc/finfields.py)."""
import time
from lib.common import run_tasks, finish


def run(tier, seed):
    t0 = time.time()
    from contracts.finfields import C21_NATIVES
    tasks = [('lib.native', 'run_natives', ('contracts.finfields', [n], tier)) for n in C21_NATIVES]
    obs = run_tasks(tasks)
    return finish('C21', tier, seed, obs, 'other', t0,
                  explanation='bounded exhaustive contract evaluation on the real is_sqr/sqrt of every element of every field in the stated bound, one entry per code branch '
                              '(p = 3 mod 4, p = 1 mod 4 Cipolla-Lehmer, p = 2, q = 1 mod 4 Tonelli-Shanks, q = 3 mod 4, binary Frobenius, and Tonelli-Shanks on a newly '
                              'created class for the _least_qnr cache): is_sqr(a) iff a is in the set {b*b} computed by the oracle over all b; sqrt(a)^2 == a for squares; '
                              '(sqrt(a, INV=True))^2 * a == 1 for nonzero squares; ZeroDivisionError for a == 0 with INV; results are reduced elements of the same field. '
                              'sqrt of a non-square is unspecified and anything (incl. an exception) is accepted.',
                  assumptions=['oracle: integers mod p / coefficient lists modulo the (trial-division verified) modulus, written for the check',
                               'bounded: nothing is claimed about fields outside the stated list'],
                  trusted_base=['CPython 3.12 int arithmetic (oracle side)'])
