"""C21 - field square roots and quadratic-residue tests (mpyc/finfields.py)."""
import time
from lib.common import run_tasks, finish


def run(tier, seed):
    t0 = time.time()
    from contracts.finfields import C21_NATIVES
    tasks = [('lib.native', 'run_natives', ('contracts.finfields', [n], tier)) for n in C21_NATIVES]
    tasks += [('vc.tasks', 'run_contract', ('contracts.finfields_a', a, 'contracts.finfields:sqrt_p3', tier)) for a in ('c__sqrt_plain', 'c__sqrt_inv')]
    tasks += [('vc.tasks', 'run_lean', ([('L5_L6_L7_extra.lean', 'sqrt_3mod4', 'p = 3 mod 4, a a square: (a^((p+1)/4))^2 = a'),
                                         ('L5_L6_L7_extra.lean', 'sqrt_inv_3mod4', 'p = 3 mod 4, a != 0: a^((3p-5)/4) is the inverse of a^((p+1)/4)')], tier))]
    obs = run_tasks(tasks)
    return finish('C21', tier, seed, obs, 'other', t0,
                  explanation='p = 3 mod 4 (all such primes, all a): engine A verifies that PrimeFieldElement._sqrt returns powmod(a, (p+1)/4, p) resp. (3p-5)/4, 0 for a = 0, raises '
                              'ZeroDivisionError exactly for a = 0 with INV, and that the Cipolla-Lehmer branch is unreachable; Lean lemmas L6/L6b turn the exponents into the property. '
                              'ALL BRANCHES: bounded exhaustive contract evaluation on the real is_sqr/sqrt of every element of every field in the stated bound, one entry per code branch '
                              '(p = 3 mod 4, p = 1 mod 4 Cipolla-Lehmer, p = 2, q = 1 mod 4 Tonelli-Shanks, q = 3 mod 4, binary Frobenius, and Tonelli-Shanks on a newly '
                              'created class for the _least_qnr cache): is_sqr(a) iff a is in the set {b*b} computed by the oracle over all b; sqrt(a)^2 == a for squares; '
                              '(sqrt(a, INV=True))^2 * a == 1 for nonzero squares; ZeroDivisionError for a == 0 with INV; results are reduced elements of the same field. '
                              'sqrt of a non-square is unspecified and anything (incl. an exception) is accepted.',
                  assumptions=['oracle: integers mod p / coefficient lists modulo the (trial-division verified) modulus, written for the check',
                               'bounded: nothing is claimed about fields outside the stated list'],
                  trusted_base=['CPython 3.12 int arithmetic (oracle side)'])
