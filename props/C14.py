"""C14 - sharings dealt during protocols have full threshold degree (DESIGN §5 C14)."""
import time
from lib.common import run_tasks, finish
from props import _mp
from props import _thresha as T


def run(tier, seed):
    t0 = time.time()
    obs = run_tasks(_mp.sym(tier))
    obs = [o for o in obs if o.name.startswith(('dealing:', 'wire:', 'input:', '_randoms', 'input/mul'))]
    # the dealing function itself: fresh polynomial per secret with t coefficients drawn from the whole field (engine A, as under C13) and the exhaustive
    # distribution check of batches (two secrets dealt in one call must not share coefficients)
    obs += run_tasks(T.a_tasks([('random_split_int', 'contracts.thresha_native:split_draws'), ('random_split_field', 'contracts.thresha_native:split_draws')], tier)
                     + T.natives(tier, 'C13'))
    return finish('C14', tier, seed, obs, 'other', t0,
                  explanation='ghost dealer log in symbolic mp runs: every call of thresha.random_split made by _distribute and _reshare (hence by input, _randoms '
                  'without PRSS, mul) passes t == rt.threshold and m == len(rt.parties); every dealt share put on the ghost network is, as a polynomial normal form, '
                  'secret-part + a fresh dealer coefficient with unit factor (never a bare secret or bare share) for t >= 1. The random_split contract itself '
                  '(t fresh uniform coefficients per secret, none reused: engine A, P) is included here as under C13. "Degree exactly t" is read as "t coefficients drawn uniformly from the '
                  'whole field" (the leading one may be 0 with probability 1/q). Bounded in (m,t).',
                  assumptions=_mp.MP_ASSUME, trusted_base=_mp.MP_TRUST)
