"""C14 - sharings dealt during protocols have full threshold degree (DESIGN §5 C14)."""
import time
from lib.common import run_tasks, finish
from props import _mp


def run(tier, seed):
    t0 = time.time()
    obs = run_tasks(_mp.sym(tier))
    obs = [o for o in obs if o.name.startswith(('dealing:', 'wire:', 'input:', '_randoms', 'input/mul'))]
    return finish('C14', tier, seed, obs, 'other', t0,
                  explanation='ghost dealer log in symbolic mp runs: every call of thresha.random_split made by _distribute and _reshare (hence by input, _randoms '
                  'without PRSS, mul) passes t == rt.threshold and m == len(rt.parties); every dealt share put on the ghost network is, as a polynomial normal form, '
                  'secret-part + a fresh dealer coefficient with unit factor (never a bare secret or bare share) for t >= 1. The random_split contract itself '
                  '(t fresh uniform coefficients per secret, none reused) is C12/C13. "Degree exactly t" is read as "t coefficients drawn uniformly from the '
                  'whole field" (the leading one may be 0 with probability 1/q). Bounded in (m,t).',
                  assumptions=_mp.MP_ASSUME, trusted_base=_mp.MP_TRUST)
