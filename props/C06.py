"""C06 - secure conversion between types preserves values (DESIGN §5 C06)."""
import time
from lib.common import run_tasks, finish


def tasks(tier):
    T = []
    pairs = [(('int', 4), ('int', 8)), (('int', 8), ('int', 4)), (('int', 6), ('fxp', 8, 2)), (('fxp', 8, 2), ('int', 6)), (('fxp', 6, 2), ('fxp', 8, 4)),
             (('fxp', 8, 4), ('fxp', 6, 2)), (('fxp', 8, 4), ('int', 4)), (('int', 4), ('fxp', 8, 4))]
    if tier != 'quick':
        pairs += [(('int', 8), ('int', 16)), (('int', 12), ('fxp', 16, 4)), (('fxp', 12, 6), ('fxp', 16, 8)), (('fxp', 16, 8), ('fxp', 12, 6)), (('fxp', 12, 6), ('int', 6))]
    for src, dst in pairs:
        for k, np_ in ((2, False), (3, True)):
            T.append(('sx.tasks', 'run_instance', ('sx.fxp', 'convert', dict(src=src, dst=dst), dict(k=k, no_prss=np_), 'mpyc.runtime.Runtime._convert',
                                                   f'{src}->{dst}, k={k}; all source values that fit the target')))
    # m-party concrete runs of the conversion program, EVERY configuration up to 7 parties in both tiers (cheap; the mask bound of _convert depends on
    # comb(m, t): only (7, 3) with PRSS separates comb(m, t) from t+1 by more than the head room of the field)
    from props import _mp
    from sx import mpinst
    T += _mp.concrete(tier, ['convert_ops'], mpinst.CONFIGS_THOROUGH)
    try:
        from contracts import runtime_native as RN
        T += RN.tasks(tier, 'C06')
    except ImportError:
        pass
    return T


def run(tier, seed):
    t0 = time.time()
    obs = run_tasks(tasks(tier))
    return finish('C06', tier, seed, obs, 'other', t0,
                  explanation='bounded contract verification of Runtime.convert/_convert on symbolic values (engine symx, value mode): for every source value that '
                  'fits the target the converted value is equal (int->int, int->fxp, fxp->fxp widening), fixed-point to integer / narrower fraction rounds to '
                  'a neighbour and is exact for whole numbers; the same PRF input in both fields yields the same mask (PRF determinism contract); no wrap '
                  'in either field for any mask the bound arithmetic allows. Field <-> integer conversions and m-party runs: enumerated/concrete (bounded).',
                  assumptions=['contract stubs of random_bits / is_zero_public / PRF', 'type pairs enumerated, values symbolic'],
                  trusted_base=['z3 5.1', 'CPython 3.12', 'sx/sym.py proxies'])
