"""C27 - finite groups (mpyc/fingroups.py) obey the group laws; repeat; coordinate systems agree; generator order; encode/decode."""
import time, re
from lib.common import run_tasks, finish

HEAVY = re.compile(r'^(sym_|qr_laws|qr_repeat|qr_codec|sg_laws|sg_repeat|sg_codec|ec_scalar|ec_laws|ec_repeat|ec_agree:|hc_laws|hc_repeat|cl_laws|cl_repeat|cl_exhaustive|cl_ctor|cl_codec)')

# measured cost (seconds, thorough tier) of the longest natives: they are started first
SLOW = {'qr_laws': 290, 'sg_laws': 290, 'cl_laws:l': 260, 'cl_codec': 200, 'hc_laws:l=640': 180, 'ec_laws:Ed448:affine': 200, 'ec_laws:Ed448:projective': 160,
        'cl_repeat:l': 130, 'hc_laws:genus=2,l=256': 130, 'ec_laws:Ed25519:affine': 90}


def weight(name):
    if name in SLOW: return float(SLOW[name])
    w = 1.0
    if 'Ed448' in name: w *= 3
    if 'twist' in name: w *= 2
    if ':affine' in name: w *= 1.5
    if name.startswith(('cl_laws', 'cl_repeat')): w *= 4
    if name.startswith(('ec_laws', 'ec_repeat')): w *= 2
    if 'l=64' in name or 'l=96' in name or 'l=127' in name or 'kummer' in name or 'genus=4' in name: w *= 2
    return w


def run(tier, seed):
    t0 = time.time()
    import contracts.fingroups as C              # imported before the pool forks: children inherit the module
    names = C.native_names(tier)
    heavy = sorted((n for n in names if HEAVY.match(n)), key=lambda n: -weight(n))
    light = [n for n in names if not HEAVY.match(n)]
    tasks = [('lib.native', 'run_natives', ('contracts.fingroups', [n], tier)) for n in heavy]
    tasks += [('lib.native', 'run_natives', ('contracts.fingroups', light[i::12], tier)) for i in range(12) if light[i::12]]
    # proved part: FiniteGroupElement.repeat (square-and-multiply over an abstract monoid) by engine A, with the lemma step checked in Lean
    tasks += [('vc.tasks', 'run_contract', ('contracts.fingroups_a', 'repeat', 'contracts.fingroups:sym_repeat', tier))]
    tasks += [('vc.tasks', 'run_lean', ([('L5_L6_L7_extra.lean', 'pow_binary_step', 'a^(2k+bit) = (a^k)^2 * a^bit in any monoid: the step of square-and-multiply')], tier))]
    obs = run_tasks(tasks)
    return finish('C27', tier, seed, obs, 'other', t0,
                  explanation='FiniteGroupElement.repeat proved for all n and all groups satisfying the monoid laws (engine A, abstract operation; lemma in Lean). Bounded executable contracts on the real group classes of mpyc/fingroups.py, one obligation per family x concern (per curve x coordinate system for '
                              'elliptic curves, per parameter set for hyperelliptic curves): operation / operation2 / inversion / identity / associativity / equality, a^n = n-fold '
                              'application for n in -20..40 and large n (naive loop over the real operation and an independent oracle), generator order, agreement of coordinate '
                              'systems after normalisation, decode(encode(m)) == m.  Oracles written for the check: permutations as tuples; ints mod p; own affine group law for short '
                              'Weierstrass and twisted Edwards curves over own GF(p) / GF(p^2) arithmetic with constants read from the curve class and the published group orders; '
                              'own affine law for genus-1 hyperelliptic curves, own polynomial arithmetic for membership in the Jacobian, exhaustive enumeration of tiny Jacobians, '
                              'affine vs Costello-Lauter coordinates through the curve isomorphism; own reduction, Dirichlet composition and class-number count for class groups',
                  assumptions=['strength B: finite samples (exhaustive for Sym(n) n <= 5 pairs / n <= 4 triples, groups of order <= 8 (QR/Schnorr), tiny Jacobians, class groups with h <= 47); '
                               'pseudo-random samples use random.Random(12345 + k)',
                               'hyperelliptic curves of genus >= 2: no independent oracle for the group law; group axioms, closure in the Jacobian, n-fold application, cross-coordinate agreement only',
                               'Costello-Lauter coordinates are only exercised on full-degree divisors and the identity (documented restriction of HCDivisorCL)',
                               'primality of 250..450-bit group orders: Miller-Rabin with the first 46 primes as bases',
                               'published curve constants (group orders, field primes) are typed into the contract file from RFC 8032, SEC 2 and the BN paper',
                               '"generator has the declared order" is demanded exactly (g^(order/r) != identity for every prime r | order) where the module declares the order of the '
                               'generator: QR modulo safe primes (bit length given, or explicit safe p), Schnorr groups, the built-in elliptic curves, hyperelliptic curves with a declared '
                               'order; for explicit non-safe QR moduli and for class groups `order` is the order of the group and the generator only generates a subgroup (documented): '
                               'generator^order = identity is demanded there',
                               'hash is not part of the property: equal points must hash equally only after normalize() (documented unique representation) and for identical representations',
                               'encode/decode on BN256_twist (curve over GF(p^2)): encode is documented as not available over non-prime fields; TypeError or a correct round trip is demanded',
                               'Schnorr decode is only required for m < 1024 (documented search bound); QR / EC / HC / class group messages must satisfy the stated size bounds'],
                  trusted_base=['CPython 3.12 int arithmetic, pow(a, -1, p), tuples', 'math.gcd, math.isqrt, math.lcm, itertools (oracle side)'])
