"""C11 - shares of every secure value form a consistent degree-t sharing (DESIGN §5 C11)."""
import time
from lib.common import run_tasks, finish
from props import _mp


def run(tier, seed):
    t0 = time.time()
    obs = run_tasks(_mp.sym(tier) + _mp.concrete(tier, _mp.PROGS + (['gcd_ops'] if tier != 'quick' else []))
                    + _mp.concrete(tier, ['gcd_ops'], [(3, 1)]) * (tier == 'quick'))
    obs = [o for o in obs if 'SH_t' in o.name or 'terminates' in o.name]
    return finish('C11', tier, seed, obs, 'other', t0,
                  explanation='SH_d(v) = "the m parties\' values are g(1..m) for ONE polynomial g of degree <= d with g(0) = v". Symbolic mp runs decide SH_t exactly '
                  '(polynomial normal forms mod p) after input/_distribute, after multiplication + _reshare, and for _randoms with and without PRSS, for all '
                  'values, dealer coefficients and PRF outputs. Concrete mp runs of ~150 secure operations (integers, fixed point, bits, conversions, fields incl. '
                  'lifted small fields, random, seclists, gcd) check SH_t of every returned secure value, and at EVERY output/_reshare call that the inputs are a '
                  'sharing of degree <= threshold (resp. 2t) and that _reshare returns SH_t of the same secret. The value-mode degree ghost (C01) covers '
                  'all values for the functions in between. Bounded in (m,t).',
                  assumptions=_mp.MP_ASSUME, trusted_base=_mp.MP_TRUST)
