"""Shared pieces of the thresha properties C12, C13, C15, C17."""
A = lambda attr, native=None: ('vc.tasks', 'run_contract', ('contracts.thresha', attr, native, None))


def a_tasks(attrs_natives, tier):
    return [('vc.tasks', 'run_contract', ('contracts.thresha', a, n, tier)) for a, n in attrs_natives]


def natives(tier, prop):
    from contracts import thresha_native as N
    return N.tasks(tier, prop)


def lean(theorems, tier):
    return [('vc.tasks', 'run_lean', (theorems, tier))]


A_ASSUME = ['Python int = mathematical integer; a % b for symbolic b encoded definitionally (a == q*b + MOD(a,b), 0 <= MOD < b for b > 0)',
            'termination of loops not proved (partial correctness)',
            'spec functions (Horner, N, D, S, T, TZ, HZ) are uninterpreted; their unfolding equations are instantiated at program terms only (reveal)',
            'field elements are modelled by their reduced integer value; constructor contract field(v).value == v mod p; '
            '__imul__ / __truediv__ contracts as proved for PrimeFieldElement under C20 (bounded there for extension fields)',
            'hand correspondence between the SMT spec functions and the Lean statements (lean/*.lean)',
            'extension and binary fields (values are gfpx polynomials): the same code, checked by the bounded enumeration only']
A_TRUST = ['z3 5.1 / cvc5 1.0.3 / z3 4.8.12', 'Lean 4.33 + Mathlib kernel (lemmas L1-L4, L7)', 'secrets.randbelow(n): 0 <= r < n, fresh, i.i.d. uniform',
           'CPython semantics of list, enumerate, range, zip']
