"""C18 - values opened inside protocols are statistically masked (partial: declassification precondition + exact view distributions for tiny parameters)."""
import time
from lib.common import run_tasks, finish

INT_OPS = ['lt', 'le', 'gt', 'ge', 'eq', 'ne', 'ltc', 'sgn', 'is_zero', 'abs', 'lsb', 'mod2', 'min2', 'max2', 'mul', 'pow3', 'if_else']
FXP_OPS = ['trunc', 'mul', 'mulc', 'sq', 'lt', 'eq', 'sgn', 'abs']
CONV = [(('int', 4), ('int', 8)), (('int', 8), ('int', 4)), (('fxp', 8, 2), ('int', 6)), (('fxp', 6, 2), ('fxp', 8, 4)), (('fxp', 8, 4), ('fxp', 6, 2)), (('int', 4), ('fxp', 8, 4))]


def tasks(tier):
    T = []
    def pat(bm, bn, bp, k, np_, func, **hc):
        T.append(('sx.tasks', 'run_instance', ('sx.leak', 'leak', dict(base_module=bm, base_name=bn, base_params=bp), dict(k=k, no_prss=np_, tv=(0 if np_ else 1), **hc),
                                               func, f'declassification pattern of every opening; all values, k={k}, {"no PRSS" if np_ else "PRSS"}', 2000)))
    def views(bm, bn, bp, k, np_, func, nadd=1, max_syms=40, ideal=None, **hc):
        T.append(('sx.leak', 'run_view_enum', (bm, bn, bp, dict(k=k, no_prss=np_, tv=(0 if np_ else 1), **hc), func,
                                               f'exact view distributions, every secret input and every randomness assignment, k={k}, {"no PRSS" if np_ else "PRSS"}', nadd, 400000, max_syms, None, ideal)))
    ks = (8,) if tier == 'quick' else (8, 16)
    for k in ks:
        for np_ in (False, True):
            l = 4
            for op in INT_OPS:
                pat('sx.protocols', 'int_op', dict(l=l, op=op), k, np_, f'mpyc.runtime.Runtime({op})')
            for b in (2, 3, 4, 5) if tier == 'quick' else (2, 3, 4, 5, 6, 7):
                pat('sx.protocols', 'divmod', dict(l=l, b=b), k, np_, 'mpyc.runtime.Runtime._mod')
            for op in FXP_OPS:
                pat('sx.fxp', 'fxp_op', dict(l=6, f=2, op=op, flags=(None,) if op == 'trunc' else (None, None)), k, np_, f'mpyc.runtime.Runtime({op}) [fixed point]')
            for src, dst in CONV:
                pat('sx.fxp', 'convert', dict(src=src, dst=dst), k, np_, 'mpyc.runtime.Runtime._convert')
            pat('sx.bits', 'to_bits', dict(l=4), k, np_, 'mpyc.runtime.Runtime.to_bits')
            pat('sx.bits', 'to_bits', dict(l=4, lbits=2), k, np_, 'mpyc.runtime.Runtime.to_bits')
            pat('sx.bits', 'to_bits', dict(l=6, fxp=2), k, np_, 'mpyc.runtime.Runtime.to_bits')
            pat('sx.bits', 'trailing_zeros', dict(l=4), k, np_, 'mpyc.runtime.Runtime.trailing_zeros')
            pat('sx.bits', 'gcp2', dict(l=3), k, np_, 'mpyc.runtime.Runtime.gcp2')
            # explicit l below the type's bit length: the mask must still cover the WHOLE value (bit_length + k bits), not l + k (seeded C18.5)
            pat('sx.bits', 'trailing_zeros', dict(l=6, lbits=2), k, np_, 'mpyc.runtime.Runtime.trailing_zeros [l < bit_length]')
            pat('sx.bits', 'gcp2', dict(l=5, lbits=2), k, np_, 'mpyc.runtime.Runtime.gcp2 [l < bit_length]')
            pat('sx.bits', 'to_bits', dict(l=6, lbits=3), k, np_, 'mpyc.runtime.Runtime.to_bits [l < bit_length]')
            pat('sx.bits', 'unit_vector', dict(l=8, n=3), k, np_, 'mpyc.runtime.Runtime.unit_vector')
            for fn in ('prod', 'schur_prod', 'in_prod'):
                pat('sx.fxp', 'fxp_list', dict(l=8, f=4, func=fn, flags=(None, None, None, None, 1)), k, np_, f'mpyc.runtime.Runtime.{fn} [fixed point]')
    # exact distributions of the whole view (opened values and public zero-test bits) for tiny parameters
    k = 3
    for np_ in (False, True):
        for op in ('sgn', 'lt', 'eq', 'is_zero', 'abs', 'lsb', 'mod2', 'ge', 'ne') + (() if tier == 'quick' else ('min2', 'max2', 'le', 'gt')):
            views('sx.protocols', 'int_op', dict(l=3, op=op), k, np_, f'mpyc.runtime.Runtime({op})')
        views('sx.protocols', 'int_op', dict(l=3, op='is_zero'), 2, np_, 'mpyc.runtime.Runtime.is_zero_public (real body: multiplicative blinding)', 1, stub_is_zero_public=False)
        views('sx.fxp', 'fxp_op', dict(l=4, f=1, op='lt', flags=(None, None)), k, np_, 'mpyc.runtime.Runtime(lt) [fixed point]')
        # the real is_zero_public (multiplicative blinding), the three branches of its field-size case distinction
        views('sx.leak', 'izp', dict(kind='int', l=3), 2, np_, 'mpyc.runtime.Runtime.is_zero_public [large field]', 0, 7, stub_is_zero_public=False)
        views('sx.leak', 'izp', dict(kind='fld', p=5), 2, np_, 'mpyc.runtime.Runtime.is_zero_public [medium field]', 0, 7, stub_is_zero_public=False)
        views('sx.leak', 'izp', dict(kind='fld', p=5), 4, np_, 'mpyc.runtime.Runtime.is_zero_public [small field]', 0, 7, stub_is_zero_public=False)
        # the probabilistic zero test of [NO07] (is_zero for bit_length > 2k): called directly on a 6-bit Blum prime, k = 1: views identical for all nonzero inputs
        views('sx.leak', 'is_zero_nishide', dict(l=2, p=43), 1, np_, 'mpyc.runtime.Runtime._is_zero', 0, 12, 'ideal_is_zero')
    return T


def run(tier, seed):
    t0 = time.time()
    obs = run_tasks(tasks(tier))
    return finish('C18', tier, seed, obs, 'other', t0,
                  explanation='partial. (1) Declassification precondition (engine symx, value mode, all values symbolic): the REAL protocol functions run on symbolic secrets and symbolic '
                  'randomness; the normal form of every value handed to `output` inside a protocol must be public, or a product with a uniform field element (zero test), or '
                  'REST + g*U where U is a fresh uniform value on [0, R) built from randomness symbols that occur nowhere else in the value (mixed-radix chain of bits / PRF outputs; '
                  'rejection-sampled low parts checked by the solver to range exactly over [0, b)), g divides REST, and R * 2 >= 2^k * (number of values of REST under the path '
                  'condition, by interval arithmetic or solver search); no randomness masks two openings. (2) For tiny types (l = 3, k = 2..3) ALL assignments of secrets and of '
                  'every randomness symbol are executed through the real code and the exact distribution of the whole view (opened values and public zero-test bits) is computed per '
                  'secret input: inputs with equal outputs have views within statistical distance (#additive openings) * 2 * 2^-k. From pattern to "distance <= 2^-k" is the smudging lemma (assumed).',
                  assumptions=['smudging lemma: REST + uniform([0,R)) for two values of REST at distance d has statistical distance d/R (not proved here)',
                               'random_bits / PRF outputs / secrets.randbelow are independent and uniform on their ranges (C15, C17, C33)',
                               'single-party value-mode harness with virtual threshold: the shares a coalition of <= t parties holds are independent of the secrets (C12-C14, C19); '
                               'only opened values and public bits are in the view checked here', 'slack factor 2 for the rounding of mask bounds to powers of two / comb(m,t)',
                               'outcome bits of public zero tests are covered only by the exhaustive tiny-parameter part, not by the symbolic pattern'],
                  trusted_base=['z3 5.1', 'sx harness stubs (sx/value.py)'])
