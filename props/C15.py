"""C15 - pseudorandom secret sharing is consistent for every key assignment (DESIGN §5 C15)."""
import time
from lib.common import run_tasks, finish
from props import _thresha as T


def run(tier, seed):
    t0 = time.time()
    tasks = T.a_tasks([('pseudorandom_share', 'contracts.thresha_native:prss_share:GF(7)'), ('pseudorandom_share_zero', 'contracts.thresha_native:prss_zero_formula:GF(7)'),
                       ('recombine_scalar_int', None)], tier)
    tasks += T.lean([('L4_prss_consistent.lean', 'prss_consistent', 'sum_S r_S f_S has degree <= t, value sum r_S at 0, and equals the party-local sum at each party point'),
                     ('L1_lagrange.lean', 'shamir_recombine', 'f_S_i = recombination of the points (0,1),(x+1,0) at i+1')], tier)
    tasks += T.natives(tier, 'C15')
    obs = run_tasks(tasks)
    return finish('C15', tier, seed, obs, 'other', t0,
                  explanation='engine A proves for all m, t, n, keys and PRF outputs (P): pseudorandom_share returns sums[h] = (sum_k PRFOUT_k[h] * f_{S_k}(i+1)) mod p over '
                  'the entries of prfs in any iteration order, pseudorandom_share_zero returns (sum_k Horner(PRFOUT_k[h*d..], d, i+1) * f_{S_k}(i+1)) mod p with '
                  'd = m - |S_k|; Lean lemma L4 turns the formulas into consistency (one polynomial of degree <= t with secret sum of PRF outputs; degree <= 2t '
                  'with secret 0). _f_S_i (two lines over recombine) and the end-to-end statement over all parties, key assignments, fields incl. extension fields '
                  'are checked by bounded enumeration on the real functions (B).',
                  assumptions=T.A_ASSUME + ['dict iteration modelled as iteration over a duplicate-free sequence in unspecified order', 'NumPy variants not covered'],
                  trusted_base=T.A_TRUST)
