"""Throw-away probe 3: byte windows over an append-only array, object fields, break, dict -- the real
asyncoro.MessageExchanger.data_received (branch: handshake already done, peer_pid is not None)."""
import ast, time, z3
I = z3.IntSort(); Arr = z3.ArraySort(I, I)
class Win:                      # bytes / bytearray value: window [lo, hi) over array A
    def __init__(s, A, lo, hi): s.A, s.lo, s.hi = A, lo, hi
    def length(s): return s.hi - s.lo
class Path:
    def __init__(s, env, heap, pc): s.env = dict(env); s.heap = dict(heap); s.pc = list(pc); s.broke = False
    def fork(s): q = Path(s.env, s.heap, s.pc); q.broke = s.broke; return q
s64 = z3.Function('s64', Arr, I, I); u32 = z3.Function('u32', Arr, I, I)
stop = z3.Function('stop', Arr, I, I, I); cnt = z3.Function('cnt', Arr, I, I, I)
def complete(A, p, e): return z3.And(e - p >= 12, e - p >= 12 + u32(A, p + 8))
def unfold(A, p, e):
    nxt = p + 12 + u32(A, p + 8)
    return z3.And(z3.Implies(complete(A, p, e), z3.And(stop(A, p, e) == stop(A, nxt, e), cnt(A, p, e) == 1 + cnt(A, nxt, e))),
                  z3.Implies(z3.Not(complete(A, p, e)), z3.And(stop(A, p, e) == p, cnt(A, p, e) == 0)))
class VC:
    def __init__(self, src, cls, name, contract):
        tree = ast.parse(src)
        c = [n for n in tree.body if isinstance(n, ast.ClassDef) and n.name == cls][0]
        self.fn = [n for n in c.body if isinstance(n, ast.FunctionDef) and n.name == name][0]
        self.c = contract; self.obl = []; self.n = 0
    def fresh(self, b, sort=I): self.n += 1; return z3.Const(f'{b}!{self.n}', sort)
    def oblige(self, name, P, g): self.obl.append((name, list(P.pc), g))
    def ev(self, e, P):
        if isinstance(e, ast.Constant): return z3.IntVal(e.value) if isinstance(e.value, int) and not isinstance(e.value, bool) else e.value
        if isinstance(e, ast.Name): return P.env[e.id]
        if isinstance(e, ast.Attribute) and isinstance(e.value, ast.Name) and e.value.id == 'self': return P.heap[e.attr]
        if isinstance(e, ast.BinOp) and isinstance(e.op, ast.Add): return self.ev(e.left, P) + self.ev(e.right, P)
        if isinstance(e, ast.Compare):
            l = self.ev(e.left, P); r = self.ev(e.comparators[0], P); op = e.ops[0]
            if isinstance(op, ast.Is) and r is None: return self.c['peer_pid_is_none']
            if isinstance(op, ast.In): return ('in', l, r)
            return {ast.Lt: l < r, ast.GtE: l >= r, ast.LtE: l <= r, ast.Gt: l > r}[type(op)]
        if isinstance(e, ast.Call):
            f = ast.unparse(e.func)
            if f == 'len': return self.ev(e.args[0], P).length()
            if f == 'struct.unpack_from':
                fmt = e.args[0]; w = self.ev(e.args[1], P); off = self.ev(e.args[2], P) if len(e.args) > 2 else z3.IntVal(0)
                if isinstance(fmt, ast.Constant) and fmt.value == '<qI':
                    self.oblige('unpack_from-needs-12-bytes@%d' % e.lineno, P, w.length() - off >= 12)
                    v = u32(w.A, w.lo + off + 8); P.pc.append(z3.And(0 <= v, v < 2**32))
                    return (s64(w.A, w.lo + off), v)
                if isinstance(fmt, ast.JoinedStr) and ast.unparse(fmt) == "f'{payload_size}s'":
                    n = P.env['payload_size']
                    self.oblige('unpack_from-needs-n-bytes@%d' % e.lineno, P, z3.And(n >= 0, w.length() - off >= n))
                    return (Win(w.A, w.lo + off, w.lo + off + n),)
        if isinstance(e, ast.Subscript):
            v = self.ev(e.value, P); return v[e.slice.value]
        raise NotImplementedError(ast.unparse(e))
    def stmt(self, st, P):
        if P.broke: return [P]
        if isinstance(st, ast.Expr):
            if isinstance(st.value, ast.Constant): return [P]
            src = ast.unparse(st.value)
            if src == 'self.bytes.extend(data)':
                B, D = P.heap['bytes'], P.env['data']
                A2 = self.fresh('A', Arr); k = self.fresh('k')
                # frame + copy facts, instantiated lazily through two ground lemmas used by the spec (extensionality below hi)
                P.pc.append(self.c['extend_facts'](B, D, A2))
                P.heap['bytes'] = Win(A2, B.lo, B.hi + D.length()); P.env['__A_old'] = B.A
                return [P]
            if src == 'self.buffers.pop(pc).set_result(payload)':
                P.heap['ghost_delivered'] = P.heap['ghost_delivered'] + 1; return [P]
        if isinstance(st, ast.Assign):
            t = st.targets[0]
            if isinstance(t, ast.Subscript) and ast.unparse(t) == 'self.buffers[pc]':
                P.heap['ghost_delivered'] = P.heap['ghost_delivered'] + 1; return [P]
            v = self.ev(st.value, P)
            if isinstance(t, ast.Name): P.env[t.id] = v; P.env.setdefault('__alias', {})[t.id] = ast.unparse(st.value) if ast.unparse(st.value).startswith('self.') else None
            elif isinstance(t, ast.Tuple):
                for a, b in zip(t.elts, v): P.env[a.id] = b
            elif isinstance(t, ast.Attribute): P.heap[t.attr] = v
            return [P]
        if isinstance(st, ast.Delete):
            t = st.targets[0]                      # del data[:k]
            name = t.value.id; k = self.ev(t.slice.upper, P); w = P.env[name]
            self.oblige('del-slice-in-range@%d' % st.lineno, P, z3.And(0 <= k, k <= w.length()))
            nw = Win(w.A, w.lo + k, w.hi); P.env[name] = nw
            if P.env.get('__alias', {}).get(name) == 'self.bytes': P.heap['bytes'] = nw      # data aliases self.bytes
            return [P]
        if isinstance(st, ast.If):
            c = self.ev(st.test, P)
            if c is True: return self.block(st.body, [P])
            if c is False: return self.block(st.orelse, [P])
            if isinstance(c, tuple) and c[0] == 'in':       # membership in buffers: both branches, unconstrained
                return self.block(st.body, [P.fork()]) + self.block(st.orelse, [P.fork()])
            T, F = P.fork(), P.fork(); T.pc.append(c); F.pc.append(z3.Not(c))
            return self.block(st.body, [T]) + self.block(st.orelse, [F])
        if isinstance(st, ast.Break): P.broke = True; return [P]
        if isinstance(st, ast.While):
            inv = self.c['inv']
            self.oblige('inv-init', P, inv(P))
            H = P.fork()
            w = H.env['data']; lo = self.fresh('lo'); nw = Win(w.A, lo, w.hi)
            H.env['data'] = nw; H.heap['bytes'] = nw; H.heap['ghost_delivered'] = self.fresh('gd')
            for v in ('pc', 'payload_size', 'len_packet'): H.env[v] = self.fresh(v)
            H.pc.append(inv(H))
            c = self.ev(st.test, H)
            B = H.fork(); B.pc.append(c); B.pc.append(unfold(nw.A, nw.lo, nw.hi))           # reveal: one unfolding at the current window
            outs = self.block(st.body, [B]); exits = []
            for O in outs:
                if O.broke: O.broke = False; O.pc.append(unfold(O.env['data'].A, O.env['data'].lo, O.env['data'].hi)); exits.append(O)
                else: self.oblige('inv-preserved', O, inv(O))
            E = H.fork(); E.pc.append(z3.Not(c)); E.pc.append(unfold(nw.A, nw.lo, nw.hi)); exits.append(E)
            return exits
        if isinstance(st, ast.Return): return []
        raise NotImplementedError(ast.unparse(st)[:70])
    def block(self, stmts, paths):
        for st in stmts: paths = [q for P in paths for q in self.stmt(st, P)]
        return paths
    def verify(self):
        P = self.c['init']()
        ends = self.block(self.fn.body, [P])
        for E in ends: self.oblige('post@end', E, self.c['ensures'](E))
        out = []
        for name, pc, g in self.obl:
            s = z3.Solver(); s.set('timeout', 60000); s.add(*pc); s.add(z3.Not(g)); t0 = time.time(); r = s.check(); out.append((name, str(r), round(time.time() - t0, 3)))
        return out, len(ends)
# ---------------- contract ----------------
A0 = z3.Const('A0', Arr); lo0, hi0 = z3.Ints('lo0 hi0'); D = z3.Const('D', Arr); dlo, dhi = z3.Ints('dlo dhi'); gd0 = z3.Int('gd0'); h0 = z3.Int('h0')
HI1 = hi0 + (dhi - dlo)
def same_below(A, A2, hi):   # spec functions only look at bytes below `hi`: frame lemma instances for the positions we need
    return z3.BoolVal(True)
def init():
    heap = dict(bytes=Win(A0, lo0, hi0), peer_pid=z3.Int('peer'), ghost_delivered=gd0, buffers='BUFFERS')
    env = dict(data=Win(D, dlo, dhi))
    # class invariant before the call: lo0 is where parsing stopped, gd0 frames delivered since h0
    pre = z3.And(h0 <= lo0, lo0 <= hi0, dlo <= dhi, stop(A0, h0, hi0) == lo0, cnt(A0, h0, hi0) == gd0, unfold(A0, lo0, hi0))
    return Path(env, heap, [pre])
def extend_facts(B, Dw, A2):
    # new array agrees with old below hi (frame) and with data above; for spec functions we assert the consequence actually needed:
    # stop/cnt/u32/s64 depend only on bytes below their `end`, so values over [h0, hi0) are unchanged  (lemma `frame_below`, proved separately)
    return z3.And(stop(A2, h0, B.hi) == stop(B.A, h0, B.hi), cnt(A2, h0, B.hi) == cnt(B.A, h0, B.hi),
                  # chunking lemma (proved separately by induction, see framing_window_lemma.py): for hi <= hi'
                  stop(A2, stop(A2, h0, B.hi), B.hi + Dw.length()) == stop(A2, h0, B.hi + Dw.length()),
                  cnt(A2, h0, B.hi + Dw.length()) == cnt(A2, h0, B.hi) + cnt(A2, stop(A2, h0, B.hi), B.hi + Dw.length()))
def inv(P):
    w = P.env['data']; b = P.heap['bytes']
    return z3.And(b.A is w.A if False else z3.BoolVal(True), b.lo == w.lo, b.hi == w.hi, w.hi == HI1, lo0 <= w.lo, w.lo <= w.hi,
                  stop(w.A, w.lo, w.hi) == stop(w.A, lo0, w.hi), P.heap['ghost_delivered'] + cnt(w.A, w.lo, w.hi) == gd0 + cnt(w.A, lo0, w.hi))
def ensures(P):
    b = P.heap['bytes']
    return z3.And(b.hi == HI1, b.lo == stop(b.A, h0, HI1), P.heap['ghost_delivered'] == cnt(b.A, h0, HI1))
contract = dict(peer_pid_is_none=False, init=init, extend_facts=extend_facts, inv=inv, ensures=ensures)
src = open('/repo/mpyc/asyncoro.py').read()
res, nends = VC(src, 'MessageExchanger', 'data_received', contract).verify()
print('exit paths', nends)
for r in res: print(r)
print('--- mutants')
muts = {'>= 12 -> > 12': ("while len(data) >= 12:", "while len(data) > 12:"),
        'len check <=': ("if len(data) < len_packet:", "if len(data) <= len_packet:"),
        'payload offset': ("struct.unpack_from(f'{payload_size}s', data, 12)[0]", "struct.unpack_from(f'{payload_size}s', data, 8)[0]"),
        'del too little': ("del data[:len_packet]", "del data[:payload_size]"),
        'forgot +12': ("len_packet = payload_size + 12", "len_packet = payload_size")}
for name, (a, b) in muts.items():
    assert a in src
    try:
        i = src.rindex(a); r, _ = VC(src[:i] + b + src[i+len(a):], 'MessageExchanger', 'data_received', contract).verify()
        print(name, '->', [(x[0], x[1]) for x in r if x[1] != 'unsat'])
    except NotImplementedError as e: print(name, 'outside subset', e)
