import sys, asyncio, contextvars, argparse, itertools, time, traceback, random as pyrandom
sys.argv=['x','--no-log']
import mpyc
from mpyc import runtime as rtmod, asyncoro, sectypes, mpctools, seclists, secgroups, thresha, finfields
import mpyc.random, mpyc.statistics, mpyc.secpols
from mpyc.runtime import Runtime, Party
exec(open(__file__.rsplit('/',1)[0]+'/mp_harness_concrete.py').read().split("async def prog(rt):")[0].split("import mpyc.random, mpyc.statistics, mpyc.secpols\nfrom mpyc.runtime import Runtime, Party")[1])


def clear():
    thresha._recombination_vector.cache_clear(); thresha._f_S_i.cache_clear()
    sectypes._SecFld.cache_clear(); sectypes._SecInt.cache_clear(); sectypes._SecFxp.cache_clear(); sectypes._SecFlt.cache_clear()

async def prog(rt):
    out = {}
    secint = rt.SecInt(16); secfxp = rt.SecFxp(16, 8)
    o = rt.output
    vals = [(-7, 3), (12, -5), (0, 9), (-32768, 32767), (255, 256)]
    for a, b in vals:
        x, y = secint(a), secint(b)
        r = await o([x + y if abs(a+b) < 2**15 else x, x - y if abs(a-b) < 2**15 else x, x * y if abs(a*b) < 2**15 else x, x < y, x <= y, x == y, x >= y, x > y, x != y,
                     rt.sgn(x), abs(x) if a > -2**15 else x, rt.min(x, y), rt.max(x, y), x % 7, x // 7, x % 8, x % 2])
        exp = [a+b if abs(a+b) < 2**15 else a, a-b if abs(a-b) < 2**15 else a, a*b if abs(a*b) < 2**15 else a, int(a<b), int(a<=b), int(a==b), int(a>=b), int(a>b), int(a!=b),
               (a>0)-(a<0), abs(a) if a > -2**15 else a, min(a,b), max(a,b), a%7, a//7, a%8, a%2]
        out[('int', a, b)] = (r, exp)
    import math
    for a, b in [(7, 3), (12, 18), (0, 9), (-12, 18), (100, 75)]:
        x, y = secint(a), secint(b)
        g = await o([rt.gcd(x, y, l=8), rt.lcm(x, y, l=8)])
        out[('gcd', a, b)] = (g, [math.gcd(a, b), abs(a*b)//math.gcd(a,b) if math.gcd(a,b) else 0])
    for a, b in [(1.5, 2.25), (-3.125, 0.5), (0.0, 7.0), (10.0, -0.0625)]:
        x, y = secfxp(a), secfxp(b)
        r = await o([x + y, x - y, x * y, x < y, x * 3, x / y if b else x])
        out[('fxp', a, b)] = (r, [a+b, a-b, a*b, float(a<b), a*3, a/b if b else a])
    bits = await o(rt.to_bits(secint(-1234)))
    out['to_bits'] = (bits, [((-1234) >> i) & 1 for i in range(16)])
    out['convert'] = (await o(rt.convert(secint(-77), secfxp)), -77.0)
    out['convert2'] = (await o(rt.convert(secfxp(-77.0), rt.SecInt(32))), -77)
    uv = await o(rt.unit_vector(secint(3), 7)); out['unit_vector'] = (uv, [0,0,0,1,0,0,0])
    s = rt.seclist([5, 1, 4, 2], secint); s.sort(); out['sort'] = (await o(list(s)), [1,2,4,5])
    s = rt.seclist([5, 1, 4, 2], secint); del s[secint(1)]; s.insert(secint(0), 9); out['seclist'] = (await o(list(s)), [9,5,4,2])
    f = rt.find([secint(0), secint(1), secint(1)], 1); out['find'] = (await o(f), 1)
    for q in (2, 3, 5, 4, 8, 9, 101):
        try:
            F = rt.SecFld(q)
            a, b = F(q-1 if q in (2,3,5,101) else 3), F(1 if q < 4 else 2)
            r = await o([a + b, a * b, a / b, a == b]); out[('fld', q)] = ([str(v) for v in r], str(F.field), F.subfield is not None)
        except Exception as e:
            out[('fld', q)] = ('EXC', type(e).__name__, str(e))
    out['rand'] = await o([mpyc.random.randrange(secint, 10), mpyc.random.randint(secint, 3, 4)])
    out['ruv'] = await o(mpyc.random.random_unit_vector(secint, 5))
    out['perm'] = sorted(await o(mpyc.random.random_permutation(secint, 5)))
    out['is_zero_public'] = [await rt.is_zero_public(secint(0)), await rt.is_zero_public(secint(5))]
    out['recv'] = await o(secint(42), receivers=[0]), await rt.transfer(rt.pid*10, senders=[0, rt.pid if False else 1], receivers=[0])
    return out

for (m,t,np_) in [(2,0,False),(3,1,False),(3,1,True),(4,1,False),(5,2,True),(5,2,False),(7,3,False)]:
    clear()
    loop, net, rts = make_parties(m, t, no_prss=np_, k=30)
    CUR.set(rts[0])
    t0=time.time()
    try:
        res = run_all(loop, rts, prog)
    except Exception as e:
        print(m,t,np_,'EXCEPTION', type(e).__name__, e); traceback.print_exc(limit=3); continue
    bad = []
    for i, out in enumerate(res):
        for k, v in out.items():
            if isinstance(v, tuple) and len(v) == 2 and isinstance(k, tuple) and k[0] in ('int','gcd'):
                if v[0] != v[1]: bad.append((i,k,v))
            elif isinstance(k, tuple) and k[0]=='fxp':
                if any(abs(x-y) > 0.2*(1+abs(y)) for x,y in zip(*v)): bad.append((i,k,v))
            elif k in ('to_bits','convert','convert2','unit_vector','sort','seclist','find'):
                if v[0] != v[1]: bad.append((i,k,v))
    same = all(str({k:v for k,v in o.items() if k not in('recv',)}) == str({k:v for k,v in res[0].items() if k not in ('recv',)}) for o in res)
    print(m,t,'noprss' if np_ else 'prss','bad',bad[:3],'same-for-all',same,'msgs',len(net.sent),'left',len(net.box),len(net.wait),'time',round(time.time()-t0,1))
    if (m,t,np_)==(3,1,False):
        for k in list(res[0]):
            if isinstance(k,tuple) and k[0]=='fld' or k in ('rand','ruv','perm','is_zero_public'): print('  ',k,res[0][k])
        print('   recv', [o['recv'] for o in res])
