import z3, time
a,b,s,s1,t,t1,x,m,q,r = z3.Ints('a b s s1 t t1 x m q r')
sol = z3.Solver()
sol.add(a == s*x + t*m, b == s1*x + t1*m, b != 0)
# python divmod(a,b): a == q*b + r, r sign follows b
sol.add(a == q*b + r, z3.If(b > 0, z3.And(0 <= r, r < b), z3.And(b < r, r <= 0)))
goal = z3.And(r == (s - q*s1)*x + (t - q*t1)*m)
sol.add(z3.Not(goal))
t0=time.time(); print(sol.check(), round(time.time()-t0,3))
# post: a==1 and b==0 -> s*x % m == 1 % m  (m>1)
sol = z3.Solver()
sol.add(a == s*x + t*m, a == 1, m > 1)
sol.add((s*x) % m != 1)
t0=time.time(); print(sol.check(), round(time.time()-t0,3))
# gcd invariance with UF gcd
g = z3.Function('gcd', z3.IntSort(), z3.IntSort(), z3.IntSort())
u,v = z3.Ints('u v')
sol = z3.Solver()
sol.add(z3.ForAll([u,v], z3.Implies(v != 0, g(u,v) == g(v, u - (u/v)*v))))
