import sys, random, itertools, struct, argparse, asyncio; sys.argv=['x','--no-log']
from mpyc.runtime import mpc, Runtime, Party
from mpyc import asyncoro
bad=[]
loop=asyncio.new_event_loop(); asyncio.set_event_loop(loop)
class T:
    def __init__(s): s.buf=bytearray()
    def write(s,d): s.buf+=d
    def writelines(s,ds):
        for d in ds: s.buf+=d
    def close(s): pass
def mkrt(pid,m,t,no_prss):
    opt=argparse.Namespace(**vars(mpc.options)); opt.threshold=t; opt.no_prss=no_prss
    parties=[Party(j,'h',0) for j in range(m)]
    rt=Runtime(pid,parties,opt)
    for j in range(m): parties[j].protocol = asyncio.Future(loop=loop) if j==pid else None
    return rt
random.seed(1)
for trial in range(400):
    m=random.randrange(2,7); t=random.randrange(0,(m+1)//2); no_prss=random.random()<0.3
    i=random.randrange(0,m-1); j=random.randrange(i+1,m)   # client i -> server j
    ci=mkrt(i,m,t,no_prss); sj=mkrt(j,m,t,no_prss)
    cli=asyncoro.MessageExchanger(ci, j); tr=T(); cli.connection_made(tr)
    msgs=[(random.randrange(-2**63,2**63), bytes(random.randrange(256) for _ in range(random.choice([0,0,1,5,12,13,40])))) for _ in range(random.randrange(0,6))]
    for pc,pl in msgs: cli.send(pc,pl)
    stream=bytes(tr.buf)
    srv=asyncoro.MessageExchanger(sj)
    # receives before/after
    pre=[pc for pc,_ in msgs if random.random()<0.5]
    futs={pc: srv.receive(pc) for pc in set(pre)}
    k=0
    while k<len(stream):
        n=random.choice([1,1,2,3,7,11,12,13,16,50]); srv.data_received(stream[k:k+n]); k+=n
    if len(stream)==0: srv.data_received(b'')
    got={}
    ok=True
    for pc,pl in msgs:
        if [q for q,_ in msgs].count(pc)>1: continue
        r=futs[pc] if pc in futs else srv.receive(pc)
        if isinstance(r, asyncio.Future):
            if not r.done(): ok=False; bad.append(('undelivered',trial)); break
            r=r.result()
        if r!=pl: ok=False; bad.append(('payload',trial))
    if srv.peer_pid!=i: bad.append(('pid',trial,srv.peer_pid,i))
    if srv.buffers and ok and len({pc for pc,_ in msgs})==len(msgs): bad.append(('leftover',trial,srv.buffers))
    if bytes(srv.bytes)!=b'': bad.append(('rest',trial))
    if not no_prss:
        for S in itertools.combinations(range(m),m-t):
            if i in S and j in S and S[0]==i:
                if sj._prss_keys.get(S)!=ci._prss_keys.get(S): bad.append(('key',trial,S))
            if S[0]==i and j not in S and S in sj._prss_keys: bad.append(('extra-key',trial,S))
print('framing bad',len(bad),bad[:5])
