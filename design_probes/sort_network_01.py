import sys, time, itertools; sys.argv=['x','--no-log']
import z3
from mpyc.runtime import mpc, Runtime
class Tok:
    def __init__(s,i): s.i=i
    def __lt__(s,o): return ('lt',s,o)
def comparators(n):
    comps=[]
    class FakeRT:
        def if_swap(self, c, x, y):
            # c = key(a) < key(b) with (x,y) = (b,a): returns (a,b) if a<b ... record positions
            _,a,b=c; comps.append((a.pos,b.pos)); return [x,y]   # placeholder, positions fixed below
    x=[Tok(i) for i in range(n)]
    # run real _sort with stub; we need positions: emulate by tracking list indices through a wrapper list
    class L(list):
        pass
    rec=[]
    def if_swap(c,xx,yy):
        rec.append(c); return [yy,xx]  # value-agnostic: we only need which positions are compared
    fr=type('R',(),{'if_swap':staticmethod(if_swap)})()
    pos=[]
    class PL(list):
        def __getitem__(s,i):
            v=list.__getitem__(s,i); 
            if isinstance(i,int): pos.append(i)
            return v
    xs=PL(x)
    Runtime._sort(fr, xs, lambda a:a)
    # each comparator reads x[i], x[i+d] then writes; pos has pairs
    return [(pos[k],pos[k+1]) for k in range(0,len(pos),2)]
for n in (2,3,5,8,13,16,24,32):
    cs=comparators(n)
    # 0-1 principle: boolean inputs
    b=[z3.Bool(f'b{i}') for i in range(n)]
    cur=list(b)
    for i,j in cs:
        lo=z3.And(cur[i],cur[j]); hi=z3.Or(cur[i],cur[j]); cur[i],cur[j]=lo,hi   # ascending: position i gets min
    s=z3.Solver(); s.add(z3.Or(*[z3.And(cur[k], z3.Not(cur[k+1])) for k in range(n-1)]))
    t0=time.time(); r=s.check(); print(n,len(cs),'comparators; unsorted 0-1 input exists?',r,round(time.time()-t0,2))
