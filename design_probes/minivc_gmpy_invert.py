"""Throw-away probe: AST -> VC for integer-only functions with while loops, ghost code and raises.
Reads the real source of /repo/mpyc/gmpy.py every run."""
import ast, sys, time, z3

def pydiv(a, b):  # floor division for any nonzero b over z3 Euclidean div
    return z3.If(b > 0, a / b, (-a) / (-b))
def pymod(a, b): return a - b * pydiv(a, b)

class Raise(Exception): pass

class Path:
    def __init__(s, env, pc): s.env = dict(env); s.pc = list(pc)
    def fork(s): return Path(s.env, s.pc)

class VC:
    def __init__(self, src, qualname, contract):
        self.contract = contract
        tree = ast.parse(src)
        self.fn = self.find(tree, qualname)
        self.obligations = []   # (name, pc, goal)
        self.loop_no = -1
        self.fresh_n = 0
    def find(self, tree, name):
        for node in ast.walk(tree):
            if isinstance(node, ast.FunctionDef) and node.name == name:
                return node
        raise KeyError(name)
    def fresh(self, base):
        self.fresh_n += 1; return z3.Int(f'{base}!{self.fresh_n}')
    # ---------- expressions
    def ev(self, e, P):
        if isinstance(e, ast.Constant):
            if isinstance(e.value, bool): return z3.BoolVal(e.value)
            if isinstance(e.value, int): return z3.IntVal(e.value)
            if isinstance(e.value, str): return ('str', e.value)
        if isinstance(e, ast.Name): return P.env[e.id]
        if isinstance(e, ast.Tuple): return tuple(self.ev(x, P) for x in e.elts)
        if isinstance(e, ast.UnaryOp):
            v = self.ev(e.operand, P)
            if isinstance(e.op, ast.USub): return -v
            if isinstance(e.op, ast.Not): return z3.Not(self.truth(v))
        if isinstance(e, ast.BinOp):
            a, b = self.ev(e.left, P), self.ev(e.right, P)
            if isinstance(e.op, ast.Add): return a + b
            if isinstance(e.op, ast.Sub): return a - b
            if isinstance(e.op, ast.Mult): return a * b
            if isinstance(e.op, (ast.FloorDiv, ast.Mod)):
                self.oblige('div-by-zero@%d' % e.lineno, P, b != 0)
                return pydiv(a, b) if isinstance(e.op, ast.FloorDiv) else pymod(a, b)
        if isinstance(e, ast.Compare):
            l = self.ev(e.left, P); out = []
            for op, r in zip(e.ops, e.comparators):
                r = self.ev(r, P)
                out.append({ast.Lt: l < r, ast.LtE: l <= r, ast.Gt: l > r, ast.GtE: l >= r, ast.Eq: l == r, ast.NotEq: l != r}[type(op)])
                l = r
            return z3.And(*out) if len(out) > 1 else out[0]
        if isinstance(e, ast.BoolOp):
            vs = [self.truth(self.ev(v, P)) for v in e.values]
            return z3.And(*vs) if isinstance(e.op, ast.And) else z3.Or(*vs)
        if isinstance(e, ast.IfExp):
            return z3.If(self.truth(self.ev(e.test, P)), self.ev(e.body, P), self.ev(e.orelse, P))
        if isinstance(e, ast.Call):
            f = ast.unparse(e.func); args = [self.ev(a, P) for a in e.args]
            if f == 'abs': return z3.If(args[0] >= 0, args[0], -args[0])
            if f == 'divmod':
                a, b = args; self.oblige('divmod-by-zero@%d' % e.lineno, P, b != 0)
                q, r = self.fresh('q'), self.fresh('r')
                P.pc.append(z3.And(a == q * b + r, z3.Implies(b > 0, z3.And(0 <= r, r < b)), z3.Implies(b < 0, z3.And(b < r, r <= 0))))
                return (q, r)
            if f == 'max': return z3.If(args[0] >= args[1], args[0], args[1])
            if f in self.contract.get('calls', {}):
                return self.contract['calls'][f](self, P, args)
            if f in ('ValueError', 'ZeroDivisionError'): return ('exc', f)
        raise NotImplementedError(ast.dump(e)[:80])
    def truth(self, v):
        return v if z3.is_bool(v) else v != 0
    def oblige(self, name, P, goal):
        self.obligations.append((name, list(P.pc), goal))
    # ---------- statements: returns list of live paths
    def assign(self, target, val, P):
        if isinstance(target, ast.Name): P.env[target.id] = val
        elif isinstance(target, ast.Tuple):
            assert len(target.elts) == len(val)
            for t, v in zip(target.elts, val): self.assign(t, v, P)
        else: raise NotImplementedError
    def block(self, stmts, paths):
        for st in stmts:
            new = []
            for P in paths: new += self.stmt(st, P)
            paths = new
        return paths
    def run_ghost(self, key, P):
        for line in self.contract.get('ghost', {}).get(key, []):
            for st in ast.parse(line).body: self.stmt(st, P)
    def stmt(self, st, P):
        if isinstance(st, ast.Expr) and isinstance(st.value, ast.Constant): return [P]   # docstring
        if isinstance(st, ast.Assign):
            v = self.ev(st.value, P)
            for t in st.targets: self.assign(t, v, P)
            return [P]
        if isinstance(st, ast.AugAssign):
            v = self.ev(ast.BinOp(ast.Name(st.target.id, ast.Load()), st.op, st.value, lineno=st.lineno), P)
            P.env[st.target.id] = v; return [P]
        if isinstance(st, ast.If):
            c = self.truth(self.ev(st.test, P))
            Pt, Pf = P.fork(), P.fork(); Pt.pc.append(c); Pf.pc.append(z3.Not(c))
            return self.block(st.body, [Pt]) + self.block(st.orelse, [Pf])
        if isinstance(st, ast.Return):
            v = self.ev(st.value, P)
            self.oblige('post@return:%d' % st.lineno, P, self.contract['ensures'](self.args0, v, P.env))
            self.covers.append(('return:%d' % st.lineno, list(P.pc)))
            return []
        if isinstance(st, ast.Raise):
            exc = ast.unparse(st.exc).split('(')[0]
            cond = self.contract['raises'].get(exc)
            self.oblige('raises-%s@%d' % (exc, st.lineno), P, cond(self.args0, P.env) if cond else z3.BoolVal(False))
            self.covers.append(('raise:%d' % st.lineno, list(P.pc)))
            return []
        if isinstance(st, ast.While):
            self.loop_no += 1; k = str(self.loop_no)
            inv = self.contract['loops'][k]
            self.run_ghost('before_loop:' + k, P)
            self.oblige('inv-init:loop' + k, P, inv(self.args0, P.env))
            # havoc assigned vars
            assigned = sorted({n.id for s in ast.walk(st) for n in ast.walk(s) if isinstance(n, ast.Name) and isinstance(n.ctx, ast.Store)}
                              | set(self.contract.get('ghost_vars', {}).get(k, [])))
            H = P.fork()
            for v in assigned: H.env[v] = self.fresh(v)
            H.pc.append(inv(self.args0, H.env))
            c = self.truth(self.ev(st.test, H))
            B = H.fork(); B.pc.append(c)
            for r in self.contract.get('reveal', {}).get(k, []): B.pc.append(r(self.args0, B.env))
            pre = dict(B.env)
            outs = self.block(st.body, [B])
            for O in outs:
                self.run_ghost('loop_body_end:' + k, O)
                for r in self.contract.get('reveal_post', {}).get(k, []): O.pc.append(r(self.args0, pre, O.env))
                self.oblige('inv-preserved:loop' + k, O, inv(self.args0, O.env))
            E = H.fork(); E.pc.append(z3.Not(c))
            for r in self.contract.get('reveal_exit', {}).get(k, []): E.pc.append(r(self.args0, E.env))
            return [E]
        raise NotImplementedError(ast.dump(st)[:80])
    def verify(self):
        params = [a.arg for a in self.fn.args.args]
        self.args0 = {p: z3.Int(p) for p in params}
        self.covers = []
        P = Path(self.args0, [self.contract['requires'](self.args0)] + [ax for ax in self.contract.get('axioms', [])])
        left = self.block(self.fn.body, [P])
        for L in left: self.oblige('falls-off-end', L, z3.BoolVal(False))
        res = []
        for name, pc, goal in self.obligations:
            s = z3.Solver(); s.set('timeout', 30000); s.add(*pc); s.add(z3.Not(goal))
            t0 = time.time(); r = s.check(); res.append((name, str(r), round(time.time() - t0, 3)))
        cov = []
        for name, pc in self.covers:
            s = z3.Solver(); s.set('timeout', 30000); s.add(*pc); cov.append((name, str(s.check())))
        return res, cov

# ---------------- contracts (sidecar) ----------------
gcd = z3.Function('gcd', z3.IntSort(), z3.IntSort(), z3.IntSort())
def absz(v): return z3.If(v >= 0, v, -v)
u, v = z3.Ints('u v')
gcd_axioms = []
def gcd_base(a): return gcd(a, 0) == absz(a)
def gcd_step(a, b, r=None): return z3.Implies(b != 0, gcd(a, b) == gcd(b, pymod(a, b)))

invert_contract = dict(
    requires=lambda A: z3.BoolVal(True),
    axioms=gcd_axioms,
    ensures=lambda A, r, env: z3.And(A['m'] != 0,
                                    z3.Or(absz(A['m']) == 1,
                                          # congruence x*r == 1 (mod |m|) stated with a ghost witness k
                                          A['x'] * r == 1 + (z3.If(env['s'] < 0, A['x'] - env['t'], -env['t']) if 't' in env else 0) * absz(A['m'])),
                                    z3.Implies(absz(A['m']) == 1, r == 0)),
    raises={'ZeroDivisionError': lambda A, env: z3.Or(A['m'] == 0, gcd(A['x'], absz(A['m'])) != 1)},
    ghost={'before_loop:0': ['t, t1 = 0, 1'], 'loop_body_end:0': ['t, t1 = t1, t - q * t1']},
    ghost_vars={'0': ['t', 't1']},
    loops={'0': lambda A, e: z3.And(e['a'] == e['s'] * A['x'] + e['t'] * e['m'], e['b'] == e['s1'] * A['x'] + e['t1'] * e['m'],
                                   e['b'] >= 0, e['m'] == absz(A['m']), e['m'] > 1,
                                   z3.Or(z3.And(e['a'] == A['x'], e['b'] == e['m']), e['a'] > 0),
                                   gcd(e['a'], e['b']) == gcd(A['x'], e['m']))},
    # lemma instance: a == q*b + r  ->  gcd(a, b) == gcd(b, r)   (any q, r)
    reveal_post={'0': [lambda A, pre, e: z3.Implies(pre['a'] == e['q'] * pre['b'] + e['b'], gcd(pre['a'], pre['b']) == gcd(pre['b'], e['b']))]},
    reveal_exit={'0': [lambda A, e: gcd_base(e['a'])]},
)
src = open('/repo/mpyc/gmpy.py').read()
for name, c in [('invert', invert_contract)]:
    vc = VC(src, name, c); res, cov = vc.verify()
    print(name, 'obligations', len(res))
    for r in res: print('   ', r)
    print('    covers', cov)
    # canary: ensures False must fail
    c2 = dict(c); c2['ensures'] = lambda A, r, env: z3.BoolVal(False)
    res2, _ = VC(src, name, c2).verify()
    print('    canary (ensures False) refuted posts:', [r for r in res2 if r[0].startswith('post') and r[1] != 'unsat'])

print('--- mutants')
muts = {'sign of cofactor update': ("s, s1 = s1, s - q * s1", "s, s1 = s1, s + q * s1"),
        'wrong gcd test': ("if a != 1:", "if a > 2:"), 'loop cond': ("while b:", "while b > 1:"), 'divmod swapped': ("divmod(a, b)", "divmod(b, a)"),
        'no normalisation m=abs(m)': ("        m = abs(m)\n        if m == 1:", "        if m == 1:"),
        'returns s1': ("y = s + m if s < 0 else s  # ensure 0 < y < m", "y = s1 + m if s < 0 else s1  # ensure 0 < y < m")}
for name, (a, b) in muts.items():
    i0 = src.index('    def invert(x, m):'); i1 = src.index('    def legendre')
    seg = src[i0:i1]; assert a in seg, name
    res, cov = VC(src[:i0] + seg.replace(a, b, 1) + src[i1:], 'invert', invert_contract).verify()
    print(name, '->', [(r[0], r[1]) for r in res if r[1] != 'unsat'])
