import sys, math, itertools, functools, operator; sys.argv=['x','--no-log']
from mpyc.runtime import mpc
from mpyc import mpctools, thresha, finfields, gfpx
bad=[]
cat=lambda a,b:(a[0]+b[0], 1+max(a[1],b[1]))
for n in range(0,70):
    xs=[((i,),0) for i in range(n)]
    for init in (mpctools._no_value, ((-1,),0)):
        try:
            if init is None and n: continue
            r=mpctools.reduce(cat, xs, init) if init is not mpctools._no_value else mpctools.reduce(cat, xs)
            e=functools.reduce(lambda a,b:(a[0]+b[0],0), ([init] if init is not mpctools._no_value else [])+xs)
            if r[0]!=e[0]: bad.append(('reduce',n,init))
            tot=n+(init is not mpctools._no_value)
            if tot>1 and r[1]>math.ceil(math.log2(tot)): bad.append(('reduce-depth',n,r[1]))
        except TypeError:
            if n or init is not mpctools._no_value: bad.append(('reduce-raise',n))
        for method in ('Brent-Kung','Sklansky',None):
            a=list(mpctools.accumulate(xs, cat, init, method=method)) if init is not mpctools._no_value else list(mpctools.accumulate(xs, cat, method=method))
            e=list(itertools.accumulate(([init] if init is not mpctools._no_value else [])+xs, lambda a,b:(a[0]+b[0],0)))
            if [x[0] for x in a]!=[x[0] for x in e]: bad.append(('acc',n,method,init))
            tot=len(e)
            if tot>1:
                k=math.ceil(math.log2(tot)); md=max(x[1] for x in a)
                lim = max(2*k-2,k) if method=='Brent-Kung' else k
                if md>lim: bad.append(('acc-depth',n,method,md,lim))
print('mpctools bad',len(bad),bad[:8])
# thresha: subsets, x != 0, all field kinds
bad=[]
import random
def lagr_eval(F, pts, x):
    tot=F(0)
    for i,(xi,yi) in enumerate(pts):
        n=F(1); d=F(1)
        for j,(xj,_) in enumerate(pts):
            if i!=j: n*= (F(x)-F(xj)); d*=(F(xi)-F(xj))
        tot+= yi*n/d
    return tot
fields=[finfields.GF(p) for p in (2,3,5,7,11,101,2**31-1)]+[finfields.GF(finfields.find_irreducible(p,d)) for p,d in ((2,2),(2,3),(3,2),(2,8),(5,2))]
for F in fields:
    q=F.order
    for m in range(1,min(q,7)):
        for t in range(0,m):
            el=(lambda v: F(v) if F.ext_deg==1 else F(type(F.modulus)(v)))
            secrets_=[el(random.randrange(q)) for _ in range(3)]
            for form in ('field','raw'):
                s = secrets_ if form=='field' else [a.value for a in secrets_]
                sh=thresha.random_split(F, s, t, m)
                for r in range(t+1,m+1):
                    for sub in itertools.combinations(range(m), r):
                        pts=[(i+1, sh[i]) for i in sub]
                        rec=thresha.recombine(F, pts)
                        rec=[F(a) if not isinstance(a,F) else a for a in rec]
                        if rec!=secrets_: bad.append(('recombine',q,m,t,sub,form)); break
                        for x in range(0,min(q,m+2)):
                            recx=thresha.recombine(F, pts, x)
                            recx=[F(a) if not isinstance(a,F) else a for a in recx]
                            full=[(i+1, F(sh[i][0]) if not isinstance(sh[i][0],F) else sh[i][0]) for i in range(t+1)]
                            if recx[0]!=lagr_eval(F, full, x): bad.append(('recomb-x',q,m,t,sub,x)); break
                        r2=thresha.recombine(F, pts, [0,1])
print('thresha bad',len(bad),bad[:5])
# PRSS consistency with distinct PRFs per subset
bad=[]
for F in fields:
    q=F.order
    for m in range(1,min(q,7)):
        for t in range(0,(m+1)//2):
            subsets=list(itertools.combinations(range(m), m-t))
            keys={S: bytes([random.randrange(256) for _ in range(16)]) for S in subsets}
            for n in (0,1,3):
                sh=[]; sh0=[]
                for i in range(m):
                    prfs={S: thresha.PRF(keys[S], q) for S in subsets if i in S}
                    sh.append(thresha.pseudorandom_share(F, m, i, prfs, b'uci', n))
                    sh0.append(thresha.pseudorandom_share_zero(F, m, i, prfs, b'uci0', n))
                for h in range(n):
                    pts=[(i+1, sh[i][h]) for i in range(m)]
                    expect=F(0)
                    for S in subsets:
                        v=thresha.PRF(keys[S], q)(b'uci', n)[h]
                        expect+= F(v) if F.ext_deg==1 else F(type(F.modulus)(v))
                    base=pts[:t+1]
                    if lagr_eval(F, base, 0)!=expect: bad.append(('prss-secret',q,m,t))
                    for (x,y) in pts[t+1:]:
                        if lagr_eval(F, base, x)!=y: bad.append(('prss-deg',q,m,t))
                    pts0=[(i+1, sh0[i][h]) for i in range(m)]
                    base=pts0[:2*t+1]
                    if lagr_eval(F, base, 0)!=F(0): bad.append(('prss0-secret',q,m,t))
                    for (x,y) in pts0[2*t+1:]:
                        if lagr_eval(F, base, x)!=y: bad.append(('prss0-deg',q,m,t))
print('prss bad',len(bad),bad[:5])
# PRF
bad=[]
for bound in list(range(1,70))+[255,256,257,2**16,2**16+1,2**61-1]:
    f=thresha.PRF(b'k'*16, bound)
    for s in (b'', b'abc'):
        a=f(s); b=f(s,1); c=f(s,5); d=f(s,0)
        if not(0<=a<bound and b==[a] and c[0]==a and len(c)==5 and all(0<=v<bound for v in c) and d==[] and f(s,5)==c): bad.append(('prf',bound,s))
print('prf bad',len(bad),bad[:5])
