import z3, time
I = z3.IntSort()
Row = z3.ArraySort(I, I); Mat = z3.ArraySort(I, Row)
H = z3.Function('H', z3.ArraySort(I,I), I, I, I)   # H(c, j, x): Horner prefix
spec = z3.Function('spec', I, I, I)                # spec(h, i): expected share value (abstract)
sh, sh2 = z3.Consts('sh sh2', Mat)
c = z3.Const('c', Row)
h, i1, m, t, n, p, s_h, y, j, cj = z3.Ints('h i1 m t n p s_h y j cj')
a, b = z3.Ints('a b')
sol = z3.Solver()
# unfolding axioms for H at needed points are added by engine; here inner loop preservation:
#   inv_inner: 0<=j<=t and y == H(c,j,i1)
#   body: y' = (y + c[j]) * i1
sol.add(0 <= j, j < t, y == H(c, j, i1))
sol.add(H(c, j+1, i1) == (H(c, j, i1) + c[j]) * i1)   # unfold instance
sol.add(z3.Not((y + c[j]) * i1 == H(c, j+1, i1)))
t0=time.time(); print('inner', sol.check(), round(time.time()-t0,3))
# middle loop preservation: inv_mid: forall a< i1-1: sh[a][h] == (H(c,t,a+1)+s_h)%p ; forall a, b != h: sh[a][b] == sh0[a][b]
sh0 = z3.Const('sh0', Mat)
sol = z3.Solver()
sol.add(1 <= i1, i1 <= m, 0 <= h, h < n, p > 1)
sol.add(z3.ForAll([a], z3.Implies(z3.And(0 <= a, a < i1-1), sh[a][h] == (H(c,t,a+1)+s_h) % p)))
sol.add(z3.ForAll([a,b], z3.Implies(z3.And(0<=a, a<m, 0<=b, b<n, b != h), sh[a][b] == sh0[a][b])))
# body: shares[i1-1][h] = (y + s_h) % p with y == H(c,t,i1)
sol.add(y == H(c, t, i1))
sol.add(sh2 == z3.Store(sh, i1-1, z3.Store(sh[i1-1], h, (y + s_h) % p)))
goal = z3.And(
  z3.ForAll([a], z3.Implies(z3.And(0 <= a, a < i1), sh2[a][h] == (H(c,t,a+1)+s_h) % p)),
  z3.ForAll([a,b], z3.Implies(z3.And(0<=a, a<m, 0<=b, b<n, b != h), sh2[a][b] == sh0[a][b])))
sol.add(z3.Not(goal))
t0=time.time(); print('middle', sol.check(), round(time.time()-t0,3))
