import sys; sys.argv=['x','--no-log']
from mpyc.runtime import mpc
import asyncio
secint = mpc.SecInt(4); Zp = secint.field
def random_bits(sftype, n, signed=False):
    field = sftype.field if issubclass(sftype, mpc.SecureObject) else sftype
    out = [field(1) for _ in range(n)]
    if issubclass(sftype, mpc.SecureObject): return [sftype(a) for a in out]
    f = asyncio.Future(loop=mpc._loop); f.set_result(out); return f
def _random(sftype, bound=None):
    field = sftype.field if issubclass(sftype, mpc.SecureObject) else sftype
    x = field(0); return sftype(x) if issubclass(sftype, mpc.SecureObject) else x
mpc.random_bits = random_bits; mpc._random = _random
for a in (-8, -5, -1, 0, 7):
    print(a, mpc.run(mpc.output(mpc.to_bits(secint(a)))), 'expected', [(a >> i) & 1 for i in range(4)])
# trailing_zeros and lsb, _mod under the same extreme randomness
print('lsb', [mpc.run(mpc.output(mpc.lsb(secint(a)))) for a in (-8,-7,7)])
print('trailing_zeros(-8)', mpc.run(mpc.output(mpc.trailing_zeros(secint(-8)))))
