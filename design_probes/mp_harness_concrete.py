import sys, asyncio, contextvars, argparse, itertools
sys.argv=['x','--no-log']
import mpyc
from mpyc import runtime as rtmod, asyncoro, sectypes, mpctools, seclists, secgroups, thresha
import mpyc.random, mpyc.statistics, mpyc.secpols
from mpyc.runtime import Runtime, Party

CUR = contextvars.ContextVar('cur_rt')
class RTProxy:
    def __getattr__(self, n): return getattr(CUR.get(), n)
    def __setattr__(self, n, v): setattr(CUR.get(), n, v)
PROXY = RTProxy()
for mod in (asyncoro, sectypes, mpctools, seclists, secgroups, mpyc.random, mpyc.statistics, mpyc.secpols):
    mod.runtime = PROXY

class Net:
    def __init__(self): self.sent = []; self.box = {}; self.wait = {}
class GhostProto:
    def __init__(self, net, src, dst, loop): self.net, self.src, self.dst, self.loop = net, src, dst, loop; self.nbytes_sent = 0
    def send(self, pc, payload):   # called by src to dst
        key = (self.src, self.dst, pc)
        self.net.sent.append(key)
        if key in self.net.wait: self.net.wait.pop(key).set_result(payload)
        else:
            assert key not in self.net.box, ('duplicate label', key)
            self.net.box[key] = payload
    def receive(self, pc):         # src's protocol object for peer dst: receive from dst
        key = (self.dst, self.src, pc)
        if key in self.net.box: return self.net.box.pop(key)
        f = asyncio.Future(loop=self.loop); self.net.wait[key] = f; return f

def make_parties(m, t, no_prss=False, k=8):
    loop = asyncio.new_event_loop(); asyncio.set_event_loop(loop)
    net = Net(); rts = []
    base = rtmod.mpc.options
    keys = {S: bytes([i]*16) for i, S in enumerate(itertools.combinations(range(m), m-t))}
    for i in range(m):
        opt = argparse.Namespace(**vars(base)); opt.threshold = t; opt.no_async = False; opt.no_prss = no_prss; opt.sec_param = k
        parties = [Party(j, 'h', 0) for j in range(m)]
        opt.no_prss = True   # avoid key generation in setter; set keys by hand
        rt = Runtime(i, parties, opt)
        opt.no_prss = no_prss
        rt._prss_keys = {S: kk for S, kk in keys.items() if i in S}
        for j in range(m):
            if j != i: parties[j].protocol = GhostProto(net, i, j, loop)
        rts.append(rt)
    return loop, net, rts

async def party_main(rt, prog):
    return await prog(rt)

def run_all(loop, rts, prog):
    tasks = []
    for rt in rts:
        ctx = contextvars.copy_context()
        ctx.run(CUR.set, rt)
        tasks.append(ctx.run(lambda rt=rt: loop.create_task(party_main(rt, prog))))
    return loop.run_until_complete(asyncio.gather(*tasks))

async def prog(rt):
    secint = rt.SecInt(8)
    a = rt.input(secint(3 + rt.pid))          # list of m secure ints
    c = a[0] * a[1] + a[2]
    d = c < 10
    sh = await rt.gather(c)
    return await rt.output([c, d]), int(sh.value)

for (m,t,np_) in [(3,1,False),(3,1,True),(5,2,False)]:
    loop, net, rts = make_parties(m, t, no_prss=np_)
    CUR.set(rts[0])
    res = run_all(loop, rts, prog)
    print(m,t,np_, res, 'msgs', len(net.sent), 'left', len(net.box), len(net.wait))
    labs = [k for k in net.sent]; print(' unique labels per connection:', len(labs)==len(set(labs)))
