import sys, itertools, argparse; sys.argv=['x','--no-log']
from mpyc.runtime import mpc, Runtime, Party
from mpyc import sectypes, finfields, gfpx, gmpy
import mpyc.runtime as rtmod
def isprime(n): return n>=2 and all(n%d for d in range(2,int(n**.5)+1))
def pp(x):
    for p in range(2,x+1):
        if isprime(p) and x%p==0:
            d=0
            while x%p==0: x//=p; d+=1
            return (p,d) if x==1 else None
    return None
bad=[]; seen=set()
for m,t in [(1,0),(3,1),(5,2),(8,3),(9,4)]:
    opt=argparse.Namespace(**vars(mpc.options)); opt.threshold=t; opt.no_prss=True
    rt=Runtime(0,[Party(i) for i in range(m)],opt); sectypes.runtime=rt; sectypes._SecFld.cache_clear()
    for order in range(2,40):
        try:
            F=rt.SecFld(order)
            if pp(order) is None: bad.append(('accepted-nonpp',order)); continue
            base=F.subfield or F.field
            if base.order!=order: bad.append(('order',m,order,base.order))
            if t>0 and not F.field.order>m: bad.append(('small',m,t,order,F.field.order))
            if F.subfield and (F.field.characteristic!=F.subfield.characteristic): bad.append(('char',m,order))
        except (ValueError, AssertionError) as e:
            if pp(order) and not (pp(order)[1]>1 and t>0 and m>=order): bad.append(('rejected',m,t,order,type(e).__name__,str(e)[:40]))
            elif pp(order): seen.add(('ext-small-refused',m,t,order))
    for mo in range(2,70):
        for char in (None,2,3,5):
            for ed in (None,1,2):
                try:
                    F=rt.SecFld(min_order=mo,char=char,ext_deg=ed)
                    base=F.subfield or F.field
                    if base.order<mo: bad.append(('min_order',m,mo,char,ed,base.order))
                    if char and base.characteristic!=char: bad.append(('minorder-char',mo,char))
                    if ed and base.ext_deg!=ed: bad.append(('minorder-deg',mo,char,ed,base.ext_deg))
                    if t>0 and not F.field.order>m: bad.append(('small2',m,t,mo,F.field.order))
                except (ValueError, AssertionError) as e:
                    seen.add(('minorder-refused',type(e).__name__,char,ed))
print('C39 bad',len(bad),bad[:8]); print(sorted(seen)[:12])
