import sys; sys.argv=['x','--no-log']
from mpyc.runtime import mpc
secfxp = mpc.SecFxp(16, 8)
e = 2**-8
x = [secfxp(1), secfxp(e)]
y = [secfxp(1), secfxp(e)]
z = mpc.vector_add(x, y)
print('flags', [a.integral for a in z], 'values', mpc.run(mpc.output(z)))
w = z[1] * z[1]
print('product flagged', w.integral, 'value', mpc.run(mpc.output(w)), 'expected about', (2*e)**2)
u = z[1] * secfxp(0.5)
print('times 0.5:', mpc.run(mpc.output(u)), 'expected', e)
