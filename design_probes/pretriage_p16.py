import sys, math, itertools; sys.argv=['x','--no-log']
from mpyc import gmpy, gfpx, finfields
bad=[]
def isprime(n): return n>=2 and all(n%d for d in range(2,int(n**.5)+1))
# --- gfpx vs reference
def norm(a,p):
    a=[c%p for c in a]
    while a and a[-1]==0: a.pop()
    return a
def radd(a,b,p):
    n=max(len(a),len(b)); return norm([(a[i] if i<len(a) else 0)+(b[i] if i<len(b) else 0) for i in range(n)],p)
def rneg(a,p): return norm([-c for c in a],p)
def rmul(a,b,p):
    if not a or not b: return []
    c=[0]*(len(a)+len(b)-1)
    for i,x in enumerate(a):
        for j,y in enumerate(b): c[i+j]+=x*y
    return norm(c,p)
def polys(p,maxdeg):
    for n in range(0,maxdeg+2):
        for t in itertools.product(range(p),repeat=n):
            if not t or t[-1]!=0: yield list(t)
for p,md in [(2,4),(3,3),(5,2),(7,1)]:
    P=gfpx.GFpX(p)
    allp=list(polys(p,md))
    irr=set()
    # brute force irreducibles
    prods=set()
    for a in allp:
        for b in allp:
            if len(a)>=2 and len(b)>=2: prods.add(tuple(rmul(a,b,p)))
    for a in allp:
        A=P(a[:]) if p!=2 else P(sum(c<<i for i,c in enumerate(a)))
        isirr = len(a)>=2 and tuple(a) not in prods
        if len(a)-1<=md and P.is_irreducible(A)!=isirr: bad.append(('irr',p,a,P.is_irreducible(A),isirr))
        for b in allp:
            B=P(b[:]) if p!=2 else P(sum(c<<i for i,c in enumerate(b)))
            tl=lambda X:[X[i] for i in range(X.degree()+1)]
            if tl(A+B)!=radd(a,b,p): bad.append(('add',p,a,b))
            if tl(A-B)!=radd(a,rneg(b,p),p): bad.append(('sub',p,a,b))
            if tl(A*B)!=rmul(a,b,p): bad.append(('mul',p,a,b))
            if b:
                q,r=divmod(A,B)
                if tl(q*B+r)!=a or r.degree()>=B.degree(): bad.append(('divmod',p,a,b))
                if (A%B)!=r or (A//B)!=q: bad.append(('mod/div',p,a,b))
                g=P.gcd(A,B); d,s,t=P.gcdext(A,B)
                if d!=g or s*A+t*B!=g: bad.append(('gcdext',p,a,b))
                if g and (A%g or B%g or (g.degree()>=0 and g[g.degree()]!=1)): bad.append(('gcd',p,a,b))
                if B.degree()>=1:
                    try:
                        inv=P.invert(A,B)
                        if (inv*A)%B!=1 or g!=1: bad.append(('invert',p,a,b))
                    except ZeroDivisionError:
                        if g==1: bad.append(('invert-raised',p,a,b))
                    for e in range(0,5):
                        ref=P(1)
                        for _ in range(e): ref=ref*A%B
                        if P.powmod(A,e,B)!=ref%B: bad.append(('powmod',p,a,b,e))
            if (A<B)!=( (len(a),a[::-1])<(len(b),b[::-1]) ): bad.append(('lt',p,a,b))
    # next_irreducible
    for a in allp:
        if len(a)-1<md:
            A=P(a[:]) if p!=2 else P(sum(c<<i for i,c in enumerate(a)))
            nx=P.next_irreducible(A)
            cands=[c for c in allp if len(c)>=2 and c[-1]==1 and tuple(c) not in prods and int(P(c[:]) if p!=2 else P(sum(x<<i for i,x in enumerate(c))))>int(A)]
            if cands:
                best=min(cands,key=lambda c:int(P(c[:]) if p!=2 else P(sum(x<<i for i,x in enumerate(c)))))
                if [nx[i] for i in range(nx.degree()+1)]!=best and nx.degree()<=md: bad.append(('next_irr',p,a,str(nx),best))
print('gfpx bad',len(bad),bad[:10])
bad=[]
# --- finfields sqrt / is_sqr / ops in small fields
mods=[p for p in range(2,200) if isprime(p)]
flds=[finfields.GF(p) for p in mods]
for (p,d) in [(2,2),(2,3),(2,4),(3,2),(3,3),(5,2),(7,2),(3,4),(11,2),(5,3),(13,2)]:
    flds.append(finfields.GF(finfields.find_irreducible(p,d)))
for F in flds:
    q=F.order
    elts=[F(i) if F.ext_deg==1 else F(type(F.modulus)(i)) for i in range(q)]
    if len(set(int(e) if F.ext_deg==1 else int(e.value) for e in elts))!=q: bad.append(('elts',q))
    squares={}
    for e in elts:
        s=e*e; squares.setdefault(s.value if F.ext_deg==1 else int(s.value),e)
    for e in elts:
        key=e.value if F.ext_deg==1 else int(e.value)
        issq = key in squares
        if bool(e.is_sqr())!=issq: bad.append(('is_sqr',q,str(e)))
        if issq:
            r=e.sqrt()
            if r*r!=e: bad.append(('sqrt',q,str(e),str(r)))
            if e!=0:
                ri=e.sqrt(INV=True)
                if ri*ri*e!=1: bad.append(('sqrtinv',q,str(e),str(ri)))
            else:
                try: e.sqrt(INV=True); bad.append(('sqrtinv0',q))
                except ZeroDivisionError: pass
        if e!=0:
            if e*e.reciprocal()!=1 or (1/e)*e!=1: bad.append(('recip',q,str(e)))
        else:
            try: e.reciprocal(); bad.append(('recip0',q))
            except ZeroDivisionError: pass
    if q<=27:
        for a in elts:
            for b in elts:
                if a+b!=b+a or a*b!=b*a or (a-b)+b!=a: bad.append(('comm',q))
                if b!=0 and (a/b)*b!=a: bad.append(('div',q))
                x=a+F(0); x+=b
                if x!=a+b: bad.append(('iadd',q))
                x=a+F(0); x*=b
                if x!=a*b: bad.append(('imul',q))
                for c in elts[:5]:
                    if (a+b)+c!=a+(b+c) or (a*b)*c!=a*(b*c) or a*(b+c)!=a*b+a*c: bad.append(('assoc',q))
        for a in elts:
            for n in range(-5,8):
                if a==0 and n<0: continue
                ref=F(1)
                for _ in range(abs(n)): ref=ref*a
                if n<0: ref=1/ref
                if a**n!=ref: bad.append(('pow',q,str(a),n))
            for n in range(0,4):
                if (a<<n)!=a*F(2)**n : bad.append(('lshift',q))
                if F.characteristic!=2 and ((a>>n)<<n)!=a: bad.append(('rshift',q))
    # to/from bytes
    vals=[e.value for e in elts]
    if F.ext_deg==1:
        if F.from_bytes(F.to_bytes(vals))!=vals: bad.append(('bytes',q))
    else:
        if [F(v) for v in F.from_bytes(F.to_bytes(vals))]!=elts: bad.append(('bytes',q))
    import pickle
    for e in elts[:7]:
        e2=pickle.loads(pickle.dumps(e))
        if type(e2) is not type(e) or e2!=e: bad.append(('pickle',q))
print('finfields bad',len(bad),bad[:10])
