import z3, time
I = z3.IntSort()
A = z3.ArraySort(I, I)
u32 = z3.Function('u32', A, I, I)      # le_u32 of S[pos+8 .. pos+12)
stops = z3.Function('stops', A, I, I, I)  # (S, pos, end) -> final pos
cnt = z3.Function('cnt', A, I, I, I)
S = z3.Const('S', A); S2 = z3.Const('S2', A)
pos, e1, e2 = z3.Ints('pos e1 e2')
def size(S,p): return u32(S,p)
def complete(S,p,e): return z3.And(e - p >= 12, e - p >= 12 + size(S,p))
def unfold(S,p,e):
    nxt = p + 12 + size(S,p)
    return z3.And(z3.Implies(complete(S,p,e), z3.And(stops(S,p,e) == stops(S,nxt,e), cnt(S,p,e) == 1 + cnt(S,nxt,e))),
                  z3.Implies(z3.Not(complete(S,p,e)), z3.And(stops(S,p,e) == p, cnt(S,p,e) == 0)))
s = z3.Solver()
x = z3.Int('x'); Sx = z3.Const('Sx', A)
s.add(z3.ForAll([Sx, x], u32(Sx,x) >= 0))
# lemma step: pos<=e1<=e2, complete(S,pos,e1); IH at nxt
nxt = pos + 12 + size(S,pos)
s.add(pos <= e1, e1 <= e2, complete(S,pos,e1))
s.add(unfold(S,pos,e1), unfold(S,pos,e2), unfold(S,nxt,e1), unfold(S,nxt,e2))
s.add(stops(S, stops(S,nxt,e1), e2) == stops(S,nxt,e2))
s.add(cnt(S,nxt,e2) == cnt(S,nxt,e1) + cnt(S, stops(S,nxt,e1), e2))
goal = z3.And(stops(S, stops(S,pos,e1), e2) == stops(S,pos,e2),
              cnt(S,pos,e2) == cnt(S,pos,e1) + cnt(S, stops(S,pos,e1), e2))
s.add(z3.Not(goal))
t=time.time(); print('step', s.check(), round(time.time()-t,3))
# base: not complete(S,pos,e1)
s = z3.Solver()
s.add(pos <= e1, e1 <= e2, z3.Not(complete(S,pos,e1)))
s.add(unfold(S,pos,e1), unfold(S,pos,e2))
goal = z3.And(stops(S, stops(S,pos,e1), e2) == stops(S,pos,e2),
              cnt(S,pos,e2) == cnt(S,pos,e1) + cnt(S, stops(S,pos,e1), e2))
s.add(z3.Not(goal))
t=time.time(); print('base', s.check(), round(time.time()-t,3))
