import sys, math, itertools, random, statistics as st; sys.argv=['x','--no-log']
from mpyc.runtime import mpc
from mpyc.seclists import seclist, secindex
import mpyc.random as mr, mpyc.statistics as ms
def out(x):
    if isinstance(x,(int,float)): return x
    return mpc.run(mpc.output(x))
secint=mpc.SecInt(8); bad=[]
for n in range(0,5):
    for vals in itertools.product(range(3), repeat=n):
        vals=list(vals)
        for i in range(n+1):
            # insert
            L=seclist(vals, secint); L.insert(secint(i), 7); P=vals[:]; P.insert(i,7)
            if out(list(L))!=P: bad.append(('insert',vals,i,out(list(L))))
            if i<n:
                L=seclist(vals, secint); g=out(L[secint(i)])
                if g!=vals[i]: bad.append(('get',vals,i))
                L=seclist(vals, secint); L[secint(i)]=9; P=vals[:]; P[i]=9
                if out(list(L))!=P: bad.append(('set',vals,i))
                L=seclist(vals, secint); del L[secint(i)]; P=vals[:]; del P[i]
                if out(list(L))!=P: bad.append(('del',vals,i,out(list(L))))
                L=seclist(vals, secint); v=out(L.pop(secint(i))); P=vals[:]; pv=P.pop(i)
                if (v,out(list(L)))!=(pv,P): bad.append(('pop',vals,i))
        L=seclist(vals, secint)
        for v in range(4):
            if out(L.count(v))!=vals.count(v): bad.append(('count',vals,v))
            if out(L.contains(v))!=int(v in vals): bad.append(('contains',vals,v))
            if out(L.find(v))!=(vals.index(v) if v in vals else -1): bad.append(('find',vals,v))
            try:
                ix=out(L.index(v))
                if v not in vals or ix!=vals.index(v): bad.append(('index',vals,v))
            except ValueError:
                if v in vals: bad.append(('index-raise',vals,v))
            L2=seclist(vals, secint)
            try:
                mpc.run(L2.remove(v)); P=vals[:]; P.remove(v)
                if out(list(L2))!=P: bad.append(('remove',vals,v))
            except ValueError:
                if v in vals: bad.append(('remove-raise',vals,v))
        for m_ in range(0,4):
            for w in itertools.product(range(3), repeat=m_):
                w=list(w); M=seclist(w, secint)
                r=[out(L<M),out(L<=M),out(L==M),out(L>=M),out(L>M),out(L!=M)]
                e=[int(vals<w),int(vals<=w),int(vals==w),int(vals>=w),int(vals>w),int(vals!=w)]
                if r!=e: bad.append(('cmp',vals,w,r,e))
print('C31 bad',len(bad),bad[:6])
bad=[]
for _ in range(300):
    n=random.randrange(2,12)
    v=out(mr.randrange(secint,n));  bad+=[('randrange',n,v)] if not 0<=v<n else []
    a=random.randrange(-5,5); b=a+random.randrange(0,6)
    v=out(mr.randint(secint,a,b)); bad+=[('randint',a,b,v)] if not a<=v<=b else []
    u=out(mr.random_unit_vector(secint,n)); bad+=[('ruv',n,u)] if sorted(u)!=[0]*(n-1)+[1] else []
    p=out(mr.random_permutation(secint,n)); bad+=[('perm',n,p)] if sorted(p)!=list(range(n)) else []
    if n>1:
        d=out(mr.random_derangement(secint,n)); bad+=[('derang',n,d)] if sorted(d)!=list(range(n)) or any(d[i]==i for i in range(n)) else []
    k=random.randrange(0,n+1)
    s_=out(mr.sample(secint,list(range(10,10+n)),k)); bad+=[('sample',n,k,s_)] if len(set(s_))!=k or not set(s_)<=set(range(10,10+n)) else []
    k0=k
    s_=out(mr.sample(secint,range(n),k)) if n>1 else []; k=k if n>1 else 0; bad+=[('sample-range',n,k,s_)] if len(set(s_))!=k or not set(s_)<=set(range(n)) else []
    c=out(mr.choice(secint,list(range(5,5+n)))); bad+=[('choice',n,c)] if not 5<=c<5+n else []
    g=out(mr.getrandbits(secint,5)); bad+=[('getrandbits',g)] if not 0<=g<32 else []
secfxp=mpc.SecFxp(16,8)
for _ in range(100):
    r=out(mr.random(secfxp)); bad+=[('random',r)] if not 0<=r<1 else []
    a=random.uniform(-3,3); b=random.uniform(-3,3)
    u=out(mr.uniform(secfxp,a,b)); bad+=[('uniform',a,b,u)] if not min(a,b)-2**-7<=u<=max(a,b)+2**-7 else []
print('C33 bad',len(bad),bad[:6])
bad=[]
# statistics secint
for _ in range(150):
    n=random.randrange(1,8); data=[random.randrange(-9,10) for _ in range(n)]
    x=[secint(v) for v in data]
    if out(ms.mean(x))!=(sum(data)+n//2)//n: bad.append(('mean',data))
    if out(ms.median_low(x))!=st.median_low(data) or out(ms.median_high(x))!=st.median_high(data): bad.append(('median_lh',data))
    md=out(ms.median(x)); 
    if md!=( sorted(data)[n//2] if n%2 else (sorted(data)[n//2-1]+sorted(data)[n//2])//2): bad.append(('median',data,md))
    mo=out(ms.mode(x)); cnt={v:data.count(v) for v in data}
    if cnt[mo]!=max(cnt.values()): bad.append(('mode',data,mo))
    if n>=2:
        for meth in ('exclusive','inclusive'):
            for q in (2,3,4):
                r=out(ms.quantiles(x,n=q,method=meth)); e=st.quantiles(data,n=q,method=meth)
                if any(abs(a-b)>1 for a,b in zip(r,e)): bad.append(('quantiles',data,q,meth,r,e))
print('C34 bad',len(bad),bad[:6])
