"""Throw-away probe 2: lists, nested for-loops, comprehension with ghost randomness -- real thresha.random_split (case: s is a list of ints)."""
import ast, time, z3
I = z3.IntSort(); Row = z3.ArraySort(I, I); Mat = z3.ArraySort(I, Row)
class ListV:   # 1-D list of ints
    def __init__(s, arr, n): s.arr, s.n = arr, n
class MatV:    # list of unaliased lists of ints; all rows same length
    def __init__(s, arr, rows, cols): s.arr, s.rows, s.cols = arr, rows, cols
class Obj:
    def __init__(s, **kw): s.__dict__.update(kw)
class Path:
    def __init__(s, env, pc): s.env = dict(env); s.pc = list(pc)
    def fork(s): return Path(s.env, s.pc)
Rnd = z3.Array('Rnd', I, I)
MOD = z3.Function('MOD', I, I, I)
class VC:
    def __init__(self, src, name, contract):
        self.c = contract; self.fn = [n for n in ast.walk(ast.parse(src)) if isinstance(n, ast.FunctionDef) and n.name == name][0]
        self.obl = []; self.n = 0; self.loops = []
    def fresh(self, b, sort=I): self.n += 1; return z3.Const(f'{b}!{self.n}', sort)
    def oblige(self, name, P, g): self.obl.append((name, list(P.pc), g))
    def ev(self, e, P):
        if isinstance(e, ast.Constant): return z3.IntVal(e.value) if isinstance(e.value, int) else e.value
        if isinstance(e, ast.Name): return P.env[e.id]
        if isinstance(e, ast.Attribute):
            o = self.ev(e.value, P); return getattr(o, e.attr)
        if isinstance(e, ast.BinOp):
            a, b = self.ev(e.left, P), self.ev(e.right, P)
            if isinstance(e.op, ast.Add): return a + b
            if isinstance(e.op, ast.Sub): return a - b
            if isinstance(e.op, ast.Mult): return a * b
            if isinstance(e.op, ast.Mod):
                # definitional: r with a == q*b + r, 0 <= r < b  (requires b > 0: obligation)
                self.oblige('mod-positive@%d' % e.lineno, P, b > 0)
                q, r = self.fresh('q'), MOD(a, b); P.pc.append(z3.And(a == q * b + r, 0 <= r, r < b)); return r
        if isinstance(e, ast.Subscript):
            v = self.ev(e.value, P); i = self.ev(e.slice, P)
            if isinstance(v, ListV): self.oblige('index@%d' % e.lineno, P, z3.And(0 <= i, i < v.n)); return v.arr[i]
            if isinstance(v, MatV): self.oblige('index@%d' % e.lineno, P, z3.And(0 <= i, i < v.rows)); return ('row', v, i)
        if isinstance(e, ast.Call):
            f = ast.unparse(e.func)
            if f == 'len': return self.ev(e.args[0], P).n
            if f == 'type' : return ('type', self.ev(e.args[0], P))
            if f == 'type(p)': return self.ev(e.args[0], P)      # int(0) in the int case
            if f == 'isinstance': return self.c['case_is_field']
        if isinstance(e, ast.ListComp):
            src = ast.unparse(e)
            if src == '[[None] * len(s) for _ in range(m)]':
                return MatV(self.fresh('shares', Mat), P.env['m'], P.env['s'].n)
            if src == '[secrets.randbelow(order) for _ in range(t)]':
                k0 = P.env['__rnd']; t = P.env['t']; arr = self.fresh('c', Row); j = self.fresh('j')
                # definitional (kept quantified only as hypothesis on a fresh array): c[j] = Rnd[k0+j]
                P.env['__cdef'] = (arr, k0)
                P.env['__rnd'] = k0 + t
                return ListV(arr, t)
        raise NotImplementedError(ast.unparse(e))
    def cget(self, P, arr_k0, j): return Rnd[arr_k0[1] + j]
    def stmt(self, st, P):
        if isinstance(st, ast.Expr): return [P]
        if isinstance(st, ast.Assign):
            t = st.targets[0]
            if isinstance(t, ast.Name):
                P.env[t.id] = self.ev(st.value, P); return [P]
            if isinstance(t, ast.Subscript):       # shares[i1-1][h] = v
                v = self.ev(st.value, P)
                _, M, i = self.ev(t.value, P); h = self.ev(t.slice, P)
                self.oblige('index@%d' % st.lineno, P, z3.And(0 <= h, h < M.cols))
                name = t.value.value.id
                P.env[name] = MatV(z3.Store(M.arr, i, z3.Store(M.arr[i], h, v)), M.rows, M.cols); return [P]
        if isinstance(st, ast.If):
            c = self.ev(st.test, P)
            if c is True: return self.block(st.body, [P])
            if c is False: return self.block(st.orelse, [P])
        if isinstance(st, ast.Return):
            self.oblige('post@return', P, self.c['ensures'](self.A, self.ev(st.value, P), P.env)); return []
        if isinstance(st, ast.For):
            key = '.'.join(map(str, self.loops + [self.sib.get(tuple(self.loops), 0)]))
            self.sib[tuple(self.loops)] = self.sib.get(tuple(self.loops), 0) + 1
            inv = self.c['loops'][key]
            it = ast.unparse(st.iter); idx = '__i' + key
            # iteration spaces supported: enumerate(s), range(1, m+1), c
            if it == 'enumerate(s)': lo, hi = z3.IntVal(0), P.env['s'].n
            elif it == 'range(1, m + 1)': lo, hi = z3.IntVal(1), P.env['m'] + 1
            elif it == 'c': lo, hi = z3.IntVal(0), P.env['c'].n
            else: raise NotImplementedError(it)
            P.env[idx] = lo
            for r in self.c.get('reveal_init', {}).get(key, []): P.pc.append(r(self.A, P.env))
            self.oblige('inv-init:' + key, P, inv(self.A, P.env))
            assigned = {n.id for s_ in ast.walk(st) for n in ast.walk(s_) if isinstance(n, ast.Name) and isinstance(n.ctx, ast.Store)} | \
                       {n.value.value.id for s_ in ast.walk(st) if isinstance(s_, ast.Assign) for n in s_.targets if isinstance(n, ast.Subscript)}
            H = P.fork()
            for v in sorted(assigned):
                old = H.env.get(v)
                if isinstance(old, MatV): H.env[v] = MatV(self.fresh(v, Mat), old.rows, old.cols)
                elif isinstance(old, ListV): H.env[v] = ListV(self.fresh(v, Row), old.n)
                else: H.env[v] = self.fresh(v)
            H.env[idx] = self.fresh(idx)
            for k2 in list(H.env):      # inner loop ghosts are havocked too
                if k2.startswith('__i' + key + '.') or (k2 == '__rnd' and '__rnd' in self.c.get('havoc_extra', {}).get(key, [])): H.env[k2] = self.fresh(k2)
            if '__cdef' in H.env and 'c' in assigned: H.env['__cdef'] = (H.env['c'].arr, self.fresh('k0'))
            H.pc.append(inv(self.A, H.env)); H.pc.append(z3.And(lo <= H.env[idx], H.env[idx] <= hi))
            B = H.fork(); B.pc.append(B.env[idx] < hi)
            i = B.env[idx]
            if it == 'enumerate(s)': B.env['h'] = i; B.env['s_h'] = B.env['s'].arr[i]
            elif it == 'range(1, m + 1)': B.env['i1'] = i
            elif it == 'c': B.env['c_j'] = self.cget(B, B.env['__cdef'], i)
            self.loops.append(int(key.split('.')[-1]))
            outs = self.block(st.body, [B])
            self.loops.pop()
            for O in outs:
                O.env[idx] = i + 1
                for r in self.c.get('reveal', {}).get(key, []): O.pc.append(r(self.A, O.env, i))
                self.oblige('inv-preserved:' + key, O, inv(self.A, O.env))
            E = H.fork(); E.pc.append(E.env[idx] == hi)
            return [E]
        raise NotImplementedError(ast.unparse(st)[:60])
    def block(self, stmts, paths):
        for st in stmts:
            paths = [q for P in paths for q in self.stmt(st, P)]
        return paths
    def verify(self):
        self.sib = {}
        self.A = self.c['args']()
        P = Path(dict(self.A, __rnd=z3.Int('rnd0')), [self.c['requires'](self.A)])
        self.block(self.fn.body, [P])
        out = []
        for name, pc, g in self.obl:
            s = z3.Solver(); s.set('timeout', 60000); s.add(*pc); s.add(z3.Not(g)); t0 = time.time(); r = s.check(); out.append((name, str(r), round(time.time() - t0, 3)))
        return out
# ---------------- contract for thresha.random_split, case "s is a list of ints" ----------------
Horner = z3.Function('Horner', I, I, I, I)     # Horner(k0, j, x)
p, order, t, m, rnd0 = z3.Ints('p order t m rnd0'); s_arr = z3.Const('s', Row); s_n = z3.Int('len_s')
a, b = z3.Ints('a b')
def spec(k0h, x, sv): return Horner(k0h, t, x) + sv     # value before "% p"
def cong(v, w, pp, wit): return v == w - wit * pp      # witness form not needed here: we compare exact r from definitional mod
def share_ok(M, i, h, A):
    # shares[i][h] is *a* residue: 0 <= . < p and differs from Horner+s by a multiple of p
    v = M.arr[i][h]; w = Horner(rnd0 + h * t, t, i + 1) + A['s'].arr[h]
    return v == MOD(w, p)
contract = dict(
    args=lambda: dict(field=Obj(modulus=p, order=order), s=ListV(s_arr, s_n), t=t, m=m),
    case_is_field=False,
    requires=lambda A: z3.And(0 <= t, t < m, s_n >= 1, p > 1, order == p),
    loops={
        '0': lambda A, e: z3.And(e['__rnd'] == rnd0 + e['__i0'] * t, e['shares'].rows == m, e['shares'].cols == s_n,
                                 z3.ForAll([a, b], z3.Implies(z3.And(0 <= a, a < m, 0 <= b, b < e['__i0']), share_ok(e['shares'], a, b, A)))),
        '0.0': lambda A, e: z3.And(e['__rnd'] == rnd0 + (e['__i0'] + 1) * t, e['__cdef'][1] == rnd0 + e['__i0'] * t, e['c'].n == t,
                                   e['shares'].rows == m, e['shares'].cols == s_n, 0 <= e['__i0'], e['__i0'] < s_n, e['h'] == e['__i0'], e['s_h'] == A['s'].arr[e['__i0']],
                                   z3.ForAll([a, b], z3.Implies(z3.And(0 <= a, a < m, 0 <= b, b < e['__i0']), share_ok(e['shares'], a, b, A))),
                                   z3.ForAll([a], z3.Implies(z3.And(0 <= a, a < e['__i0.0'] - 1), share_ok(e['shares'], a, e['__i0'], A)))),
        '0.0.0': lambda A, e: z3.And(e['y'] == Horner(e['__cdef'][1], e['__i0.0.0'], e['i1']), e['c'].n == t),
    },
    reveal={'0.0.0': [lambda A, e, j: Horner(e['__cdef'][1], j + 1, e['i1']) == (Horner(e['__cdef'][1], j, e['i1']) + Rnd[e['__cdef'][1] + j]) * e['i1']]},
    havoc_extra={'0': ['__rnd']},
    reveal_init={'0.0.0': [lambda A, e: Horner(e['__cdef'][1], 0, e['i1']) == 0]},
    ensures=lambda A, res, e: z3.And(res.rows == m, res.cols == s_n, e['__rnd'] == rnd0 + s_n * t,
                                     z3.ForAll([a, b], z3.Implies(z3.And(0 <= a, a < m, 0 <= b, b < s_n), share_ok(res, a, b, A)))),
)
base_axiom = None
src = open('/repo/mpyc/thresha.py').read()
vc = VC(src, 'random_split', contract)
# Horner base case as a ground fact used at loop 0.0.0 init: instantiate for the specific k0/x there via requires-time lemma
orig_inv = contract['loops']['0.0.0']
res = vc.verify()
for r in res: print(r)
print('--- mutants')
muts = {'horner order': ("y = (y + c_j) * i1", "y = y * i1 + c_j"),
        'wrong column': ("shares[i1-1][h] = (y + s_h) % p", "shares[i1-1][0] = (y + s_h) % p"),
        'wrong row': ("shares[i1-1][h] = (y + s_h) % p", "shares[i1][h] = (y + s_h) % p"),
        'secret dropped': ("shares[i1-1][h] = (y + s_h) % p", "shares[i1-1][h] = (y + 0) % p"),
        'no reduction': ("shares[i1-1][h] = (y + s_h) % p", "shares[i1-1][h] = (y + s_h)")}
i0 = src.index('def random_split'); i1_ = src.index('def np_random_split')
for name, (x, y_) in muts.items():
    seg = src[i0:i1_]; assert x in seg
    try:
        res = VC(src[:i0] + seg.replace(x, y_, 1) + src[i1_:], 'random_split', contract).verify()
        print(name, '->', [(r[0], r[1]) for r in res if r[1] != 'unsat'])
    except NotImplementedError as e:
        print(name, '-> outside subset:', e)
