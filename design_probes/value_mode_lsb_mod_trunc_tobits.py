import sys, time, os; sys.argv=['x','--no-log']
import z3
exec(open('/verif/design_probes/symint_sgn_value_mode.py').read().split("def run_once(plan):")[0])
# --- comparisons + output conversion that keeps symbols (builtin int() strips int subclasses!)
def _cmp(op):
    def f(s,o):
        a=s.mat(); b=SymInt.of(o).mat(); return SymBool(op(a.z,b.z))
    return f
SymInt.__lt__=_cmp(lambda a,b:a<b); SymInt.__le__=_cmp(lambda a,b:a<=b); SymInt.__gt__=_cmp(lambda a,b:a>b); SymInt.__ge__=_cmp(lambda a,b:a>=b)
def signed_conv(a):
    v=SymInt.of(a.value).mat(); pp=type(a).modulus
    return SymInt(z3.If(v.z>pp//2, v.z-pp, v.z), -(pp//2), pp//2)
secint._output_conversion = staticmethod(signed_conv)
# --- Boolean encoding of bits
def fresh_bit(name):
    C.n+=1; b=z3.Bool(f'{name}_{C.n}'); return SymInt(z3.If(b,1,0),0,1)
_of=C.fresh.__func__ if hasattr(C.fresh,'__func__') else None
def fresh2(self,name,lo,hi):
    if (lo,hi)==(0,2): return fresh_bit(name)
    return Ctx._fresh0(self,name,lo,hi)
Ctx._fresh0=Ctx.fresh; Ctx.fresh=fresh2
def bits_of(v):
    v=v.mat()
    if not hasattr(v,'_bits'):
        assert v.lo>=0; W=max(1,int(v.hi).bit_length())
        bs=[z3.Bool(f'bd_{id(v)}_{i}') for i in range(W)]
        C.pc.append(v.z==sum(z3.If(b,1,0)*(1<<i) for i,b in enumerate(bs)))
        v._bits=bs
    return v._bits
class Shifted(SymInt):
    pass
_orsh=SymInt.__rshift__
def rsh(s,k):
    r=_orsh(s,k); m=s.mat()
    if m.lo>=0: r._shift_of=(m,int(k))
    return r
SymInt.__rshift__=rsh
_oand=SymInt.__and__
def and_(s,m):
    if int(m)==1:
        base,k=getattr(s,'_shift_of',(s.mat(),0))
        if base.lo>=0:
            bs=bits_of(base)
            return SymInt(z3.If(bs[k],1,0),0,1) if k<len(bs) else SymInt(z3.IntVal(0),0,0)
    return _oand(s,m)
SymInt.__and__=and_
# --- additional stubs: _randoms
def _randoms(sftype, n, bound=None):
    return [_random(sftype, bound) for _ in range(n)]
rt._randoms = _randoms
import mpyc.random as mr
pruned=[0]
class Pruned(Exception): pass
MAXD=int(os.environ.get('MAXD','9'))
_ob=Ctx.branch
def _nb(self,cond):
    if len(self.trace)>=MAXD: raise Pruned()
    return _ob(self,cond)
Ctx.branch=_nb
def explore(build, check, label):
    t0=time.time(); plans=[[]]; npaths=0; bad=0; mx=0; pruned[0]=0
    while plans:
        plan=plans.pop(); base=len(plan)
        C.reset(plan); clear_caches()
        try:
            out, ctx = build()
        except Pruned:
            pruned[0]+=1; trace=list(C.trace)
            for i in range(base,len(trace)): plans.append(trace[:i]+[not trace[i]])
            continue
        goals = check(out, ctx)
        s=z3.Solver(); s.add(*C.pc); s.add(z3.Not(z3.And(*goals))); s.set('timeout',30000)
        t1=time.time(); r=s.check(); mx=max(mx,time.time()-t1)
        npaths+=1
        if r!=z3.unsat:
            bad+=1
            if bad<3: print('  FAIL',label,r,list(C.trace), (s.model() if r==z3.sat else ''))
        trace=list(C.trace)
        for i in range(base,len(trace)): plans.append(trace[:i]+[not trace[i]])
    print(label,'paths',npaths,'pruned',pruned[0],'bad',bad,'time',round(time.time()-t0,1),'max query',round(mx,2))
def feq(v, e, p):
    v=SymInt.of(v); lo,hi=v.lo-abs(v.D)*(1<<L+8), v.hi+abs(v.D)*(1<<L+8)
    d=v.z - e*v.D
    return d==0 if (-p<lo and hi<p) else d%p==0
def signed(v,p):
    v=SymInt.of(v).mat(); return z3.If(v.z>p//2, v.z-p, v.z)

SEL=os.environ.get('SEL','lsb,mod,trunc,to_bits').split(',')
# ---- lsb
def b_lsb():
    a=C.fresh('a',-(1<<L-1),1<<L-1); x=secint(a)
    return mpc.run(mpc.output(mpc.lsb(x),raw=True)).value, a
if 'lsb' in SEL: explore(b_lsb, lambda o,a: [feq(o, a.z%2, p)], 'lsb')
# ---- _mod / mod for several public b
for b in [int(x) for x in os.environ.get('BS','3,4').split(',') if x]:
    def b_mod(b=b):
        a=C.fresh('a',-(1<<L-1),1<<L-1); x=secint(a)
        return mpc.run(mpc.output(x % b,raw=True)).value, a
    if 'mod' in SEL: explore(b_mod, lambda o,a,b=b: [feq(o, a.z%b, p)], f'mod {b}')
# ---- trunc on secint values with f=2
def b_trunc():
    a=C.fresh('a',-(1<<L-1),1<<L-1); x=secint(a)
    return mpc.run(mpc.output(mpc.trunc(x, f=2), raw=True)).value, a
def c_trunc(o,a):
    v=signed(o,p); fl=a.z/4  # z3 div by positive const = floor
    return [z3.Or(v==fl, v==fl+1), z3.Implies(a.z%4==0, v==fl)]
if 'trunc' in SEL: explore(b_trunc, c_trunc, 'trunc f=2')
# ---- to_bits
def b_tobits():
    a=C.fresh('a',-(1<<L-1),1<<L-1); x=secint(a)
    bits=mpc.run(mpc.output(mpc.to_bits(x),raw=True)); return [b.value for b in bits], a
if 'to_bits' in SEL: explore(b_tobits, lambda o,a: [feq(b, (a.z/(1<<i))%2, p) for i,b in enumerate(o)], 'to_bits')
