import sys; sys.argv=['x','--no-log']
from mpyc.runtime import mpc
secfxp = mpc.SecFxp(16, 8)
x = [secfxp(1), secfxp(0.5)]
y = [secfxp(1), secfxp(1)]
z = mpc.vector_add(x, y)
print([a.integral for a in z], mpc.run(mpc.output(z)))
w = z[1] * secfxp(3)      # uses integral mark to skip trunc
print(w.integral, mpc.run(mpc.output(w)), 'expected', 1.5*3)
w2 = mpc.schur_prod(x, y); print([a.integral for a in w2], mpc.run(mpc.output(w2)))
w3 = mpc.scalar_mul(secfxp(2), x); print([a.integral for a in w3], mpc.run(mpc.output(w3)))
v = mpc.scalar_mul(secfxp(2), x)[1]*secfxp(3); print(mpc.run(mpc.output(v)), 'expected', 3.0)
s = mpc.if_else(secfxp(1), x, [secfxp(2), secfxp(0.25)]); print([a.integral for a in s], mpc.run(mpc.output(s)))
t = s[1]*secfxp(3); print(t.integral, mpc.run(mpc.output(t)), 'expected 1.5')
