import sys, math, itertools, random; sys.argv=['x','--no-log']
from mpyc.runtime import mpc
from mpyc import finfields, sectypes
import mpyc.random as mr
bad=[]
def out(x):
    if isinstance(x,int): return x
    return mpc.run(mpc.output(x))
# C26
for l in range(1,140):
    for n in (1,2,3,5,7,11,13,257):
        for blum in (True,False):
            if n>2 and not blum: continue
            if l<=2 and not blum and n!=1: continue
            p,nn,w=finfields.find_prime_root(l,blum,n)
            okp = all(p%d for d in range(2,min(p,2000))) and pow(2,p-1,p)==1 if p>2 else True
            if not okp: bad.append(('prime',l,n,blum,p))
            if p.bit_length()<l or (n<=2 and l>2 and p.bit_length()!=l): bad.append(('bitlen',l,n,blum,p))
            if blum and p%4!=3: bad.append(('blum',l,n,p))
            # order of w
            if n==1 and w!=1 and not(l<=2 and blum): bad.append(('w1',l,n,blum,w))
            o=1; x=w%p
            while x!=1 and o<=nn+1: x=x*w%p; o+=1
            if n!=1 or (l<=2 and blum):
                if o!=nn: bad.append(('order',l,n,blum,p,nn,w,o))
print('C26 bad',len(bad),bad[:6])
bad=[]
# C29 sorting / argmin ties
secint=mpc.SecInt(8)
for n in range(1,7):
    for vals in itertools.product(range(3),repeat=n):
        x=[secint(v) for v in vals]
        if n<=5 and out(mpc.sorted(x))!=sorted(vals): bad.append(('sorted',vals))
        if out(mpc.min(x))!=min(vals) or out(mpc.max(x))!=max(vals): bad.append(('minmax',vals))
        mm=out(list(mpc.min_max(x)))
        if mm!=[min(vals),max(vals)]: bad.append(('min_max',vals,mm))
        i,m_=mpc.argmin(x); 
        if (out(i),out(m_))!=(vals.index(min(vals)),min(vals)): bad.append(('argmin',vals,out(i)))
        i,m_=mpc.argmax(x)
        if (out(i),out(m_))!=(vals.index(max(vals)),max(vals)): bad.append(('argmax',vals,out(i)))
print('C29 bad',len(bad),bad[:6])
bad=[]
# C30 find, unit_vector, add_bits, to_bits
for n in range(0,6):
    for bits in itertools.product(range(2),repeat=n):
        x=[secint(b) for b in bits]
        for a in (0,1):
            if n==0 and a==1: continue
            exp=bits.index(a) if a in bits else n
            if out(mpc.find(x, a))!=exp: bad.append(('find',bits,a))
            if out(mpc.find(x, secint(a)))!=exp: bad.append(('find-sec',bits,a))
            if out(mpc.find(x, a, e=-1))!=(bits.index(a) if a in bits else -1): bad.append(('find-e',bits,a))
            nf,ix=mpc.find(x, a, e=None)
            if n and (out(nf),)!=(int(a not in bits),): bad.append(('find-nf',bits,a))
            if n and a in bits and out(ix)!=bits.index(a): bad.append(('find-raw',bits,a))
            if out(mpc.find(x, a, f=lambda i: 2**i))!=2**exp: bad.append(('find-f',bits,a))
            if out(mpc.find(x, a, cs_f=lambda b,i:(b+1)<<i))!=2**exp: bad.append(('find-csf',bits,a))
        for ys in itertools.product(range(2),repeat=n):
            if n:
                s=out(mpc.add_bits(x,[secint(b) for b in ys]))
                tot=(sum(b<<i for i,b in enumerate(bits))+sum(b<<i for i,b in enumerate(ys)))%(1<<n)
                if s!=[(tot>>i)&1 for i in range(n)]: bad.append(('add_bits',bits,ys,s))
for n in range(1,10):
    for a in range(n):
        if out(mpc.unit_vector(secint(a),n))!=[int(i==a) for i in range(n)]: bad.append(('unit_vector',a,n))
s4=mpc.SecInt(5)
for a in range(-16,16):
    if out(mpc.to_bits(s4(a)))!=[(a>>i)&1 for i in range(5)]: bad.append(('to_bits',a))
    for l in range(1,5):
        tz=out(mpc.trailing_zeros(s4(a),l=l))
print('C30 bad',len(bad),bad[:6])
bad=[]
# C01 exhaustive secint(4)
s=mpc.SecInt(4)
for a in range(-8,8):
    A=s(a)
    r=out([mpc.sgn(A), abs(A) if a>-8 else A, A%2, mpc.lsb(A), A==0, A<0, -A if a>-8 else A])
    e=[(a>0)-(a<0), abs(a) if a>-8 else a, a%2, a%2, int(a==0), int(a<0), -a if a>-8 else a]
    if r!=e: bad.append(('unary',a,r,e))
    for b in range(-8,8):
        B=s(b)
        ops=[A<B, A<=B, A==B, A!=B, mpc.min(A,B), mpc.max(A,B)]
        exp=[int(a<b),int(a<=b),int(a==b),int(a!=b),min(a,b),max(a,b)]
        if -8<=a+b<8: ops.append(A+B); exp.append(a+b)
        if -8<=a-b<8: ops.append(A-B); exp.append(a-b)
        if -8<=a*b<8: ops.append(A*B); exp.append(a*b)
        if b>0: ops+= [A%b, A//b]; exp+=[a%b, a//b]
        r=out(ops)
        if r!=exp: bad.append(('bin',a,b,r,exp))
for a in range(0,8):
    for b in range(0,8):
        g=out(mpc.gcd(s(a),s(b)))
        if g!=math.gcd(a,b): bad.append(('gcd',a,b,g))
        if (a or b):
            gg,ss,tt=out(list(mpc.gcdext(s(a),s(b))))
            if gg!=math.gcd(a,b) or gg!=ss*a+tt*b: bad.append(('gcdext',a,b,gg,ss,tt))
        if b>0 and math.gcd(a,b)==1:
            iv=out(mpc.inverse(s(a),s(b)))
            if (iv*a-1)%b!=0 or not(0<=iv<b): bad.append(('inverse',a,b,iv))
print('C01 bad',len(bad),bad[:6])
