import sys; sys.argv=['x','--no-log']
from mpyc.runtime import mpc
for kw in [dict(senders=0, receivers=[]), dict(senders=[0], receivers=[]), dict(senders=0), dict(sender_receivers={0: []}), dict(sender_receivers=[])]:
    try:
        print(kw, '->', mpc.run(mpc.transfer(5, **kw)))
    except Exception as e:
        print(kw, 'raised', type(e).__name__, e)
print(mpc.run(mpc.output(mpc.SecInt(8)(3), receivers=[])))
