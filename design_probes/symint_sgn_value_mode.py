import sys, time; sys.argv=['x','--no-log']
import z3
from fractions import Fraction
from mpyc.runtime import mpc
from mpyc import finfields, thresha, asyncoro

def ratrec(c, p, B=1<<16):
    # find small n/d == c mod p
    n0, n = c % p, p
    d0, d = 1, 0
    while n0 > B:
        q = n // n0
        n, n0 = n0, n - q*n0
        d, d0 = d0, d - q*d0
    if abs(d0) <= B and d0 != 0:
        if d0 < 0: n0, d0 = -n0, -d0
        return n0, d0
    return None

class Ctx:
    def __init__(self): self.reset([])
    def reset(self, plan):
        self.plan = plan; self.pos = 0; self.pc = []; self.n = 0; self.trace=[]
    def fresh(self, name, lo, hi):
        self.n += 1
        v = z3.Int(f'{name}_{self.n}')
        self.pc.append(v >= lo); self.pc.append(v < hi)
        return SymInt(v, lo, hi-1)
    def valid(self, f):
        s = z3.Solver(); s.add(*self.pc); s.add(z3.Not(f)); return s.check() == z3.unsat
    def branch(self, cond):
        s = z3.Solver(); s.add(*self.pc)
        can_t = s.check(cond) == z3.sat
        can_f = s.check(z3.Not(cond)) == z3.sat
        if can_t and can_f:
            if self.pos < len(self.plan): d = self.plan[self.pos]
            else: d = True; self.plan.append(d)
            self.pos += 1; self.trace.append(d)
        else: d = can_t
        self.pc.append(cond if d else z3.Not(cond))
        return d
C = Ctx()

class SymInt(int):
    """value = N / D  (mod P if P else exact with D==1)"""
    def __new__(cls, z, lo, hi, D=1, P=None):
        o = int.__new__(cls, 0); o.z=z; o.lo=lo; o.hi=hi; o.D=D; o.P=P; return o
    @staticmethod
    def of(x):
        if isinstance(x, SymInt): return x
        x=int(x); return SymInt(z3.IntVal(x), x, x)
    def mat(self):
        """materialize as exact integer SymInt (P None)"""
        if self.P is None: return self
        p=self.P
        if self.D != 1:
            if C.valid(self.z % self.D == 0):
                q = SymInt(self.z / self.D, self.lo//self.D, self.hi//self.D, 1, p)
                return q.mat()
            r = C.fresh('inv', 0, p)
            C.pc.append((r.z*self.D - self.z) % p == 0)
            return r
        if 0 <= self.lo and self.hi < p: return SymInt(self.z, self.lo, self.hi)
        k = self.lo // p
        if self.hi < (k+1)*p: return SymInt(self.z - k*p, self.lo-k*p, self.hi-k*p)
        return SymInt(self.z % p, 0, p-1)
    def _arith(self, other, op):
        if not isinstance(other, int): return NotImplemented
        a, b = self, SymInt.of(other)
        P = a.P or b.P
        if a.P and b.P and a.P != b.P: a, b, P = a.mat(), b.mat(), None
        if P is None or (a.D == 1 and b.D == 1):
            if P is None: a, b = a.mat(), b.mat()
            if op == '+': return SymInt(a.z+b.z, a.lo+b.lo, a.hi+b.hi, 1, P)
            if op == '-': return SymInt(a.z-b.z, a.lo-b.hi, a.hi-b.lo, 1, P)
            if op == '*':
                c = [a.lo*b.lo, a.lo*b.hi, a.hi*b.lo, a.hi*b.hi]
                return SymInt(a.z*b.z, min(c), max(c), 1, P)
        # with denominators
        if op in '+-':
            za, zb = a.z*b.D, b.z*a.D
            la, ha = a.lo*b.D, a.hi*b.D; lb, hb = b.lo*a.D, b.hi*a.D
            if op == '+': return SymInt(za+zb, la+lb, ha+hb, a.D*b.D, P)
            return SymInt(za-zb, la-hb, ha-lb, a.D*b.D, P)
        c = [a.lo*b.lo, a.lo*b.hi, a.hi*b.lo, a.hi*b.hi]
        return SymInt(a.z*b.z, min(c), max(c), a.D*b.D, P)
    def __add__(s,o): return s._arith(o,'+')
    def __radd__(s,o): return SymInt.of(o)._arith(s,'+') if isinstance(o,int) else NotImplemented
    def __sub__(s,o): return s._arith(o,'-')
    def __rsub__(s,o): return SymInt.of(o)._arith(s,'-') if isinstance(o,int) else NotImplemented
    def __mul__(s,o):
        if isinstance(o,int) and not isinstance(o,SymInt) and s.P:
            rr = ratrec(o, s.P)
            if rr and rr[1] != 1:
                n,d = rr
                c=[s.lo*n, s.hi*n]
                return SymInt(s.z*n, min(c), max(c), s.D*d, s.P)
        return s._arith(o,'*')
    def __rmul__(s,o): return s.__mul__(o)
    def __mod__(s, m):
        if isinstance(m, SymInt): raise RuntimeError('sym modulus')
        m=int(m)
        if s.P == m: return s
        if s.P is None and s.D == 1 and m > 1<<8:   # treat as field modulus: lazy
            return SymInt(s.z, s.lo, s.hi, 1, m)
        a = s.mat()
        if 0 <= a.lo and a.hi < m: return a
        return SymInt(a.z % m, 0, m-1)
    def __neg__(s): return SymInt(-s.z, -s.hi, -s.lo, s.D, s.P)
    def __pos__(s): return s
    def __lshift__(s,k): return s * (1<<int(k))
    def __rshift__(s,k):
        a=s.mat(); d=1<<int(k); return SymInt(a.z / d, a.lo//d, a.hi//d)
    def __and__(s,m):
        m=int(m); assert m & (m+1) == 0; return s % (m+1)
    def __bool__(s):
        a=s.mat(); return C.branch(a.z != 0)
    def __eq__(s,o): 
        a=s.mat(); b=SymInt.of(o).mat(); return SymBool(a.z == b.z)
    def __ne__(s,o):
        a=s.mat(); b=SymInt.of(o).mat(); return SymBool(a.z != b.z)
    def __hash__(s): return id(s)
    def __repr__(s): return f'Sym({s.z} /{s.D} mod {s.P} in [{s.lo},{s.hi}])'
class SymBool:
    def __init__(self, z): self.z = z
    def __bool__(self): return C.branch(self.z)

def field_is_zero(v):
    """formula: field element with value v is zero"""
    v = SymInt.of(v)
    if v.P is None: return v.z == 0
    p = v.P
    if -p < v.lo and v.hi < p: return v.z == 0
    return v.z % p == 0
def field_eq_goal(v, e, p):
    """formula: v == e in field (e exact int expr small)"""
    v = SymInt.of(v)
    diff = v.z - e*v.D
    return diff % p == 0 if not (-p < v.lo - v.D and v.hi + v.D < p and False) else diff == 0

rt = mpc
import os
L = int(os.environ.get('L','4'))
K = int(os.environ.get('K','3'))
rt.options.sec_param = K
secint = mpc.SecInt(L)
Zp = secint.field
p = Zp.modulus
print('p', p, p.bit_length())

def random_bits(sftype, n, signed=False):
    field = sftype.field if issubclass(sftype, rt.SecureObject) else sftype
    out = []
    for i in range(n):
        b = C.fresh('bit', 0, 2)
        out.append(field(2*b-1 if signed else b))
    if issubclass(sftype, rt.SecureObject):
        return [sftype(a) for a in out]
    fut = asyncoro.Future(loop=rt._loop); fut.set_result(out); return fut
def _random(sftype, bound=None):
    field = sftype.field if issubclass(sftype, rt.SecureObject) else sftype
    x = field(C.fresh('rnd', 0, bound if bound else field.order))
    return sftype(x) if issubclass(sftype, rt.SecureObject) else x
rt.random_bits = random_bits
rt._random = _random
rt.prod = lambda x, start=1: ('PROD', list(x))
orig_init = secint.__init__
def init(self, value=None):
    if isinstance(value, tuple) and value and value[0]=='PROD':
        self.share = value[1]; return
    orig_init(self, value)
secint.__init__ = init
async def izp2(a):
    return C.branch(z3.Or(*[field_is_zero(f.value) for f in a.share]))
rt.is_zero_public = lambda a: izp2(a)

def clear_caches():
    thresha._recombination_vector.cache_clear(); thresha._f_S_i.cache_clear()

def run_once(plan):
    C.reset(plan); clear_caches()
    a = C.fresh('a', -(1<<L-1), 1<<L-1)
    x = secint(a)
    z = mpc.sgn(x, LT=True)
    out = mpc.run(mpc.output(z, raw=True)).value
    s = z3.Solver(); s.add(*C.pc)
    expect = z3.If(a.z < 0, 1, 0)
    o = SymInt.of(out)
    lo, hi = o.lo - o.D, o.hi + o.D
    goal = (o.z - expect*o.D) == 0 if (-p < lo and hi < p) else (o.z - expect*o.D) % p == 0
    s.add(z3.Not(goal))
    s.set('timeout', 20000)
    t0=time.time(); r = s.check(); dt=time.time()-t0
    return r, list(C.trace), dt, o

t0=time.time()
plans=[[]]; npaths=0; bad=0; mx=0
while plans:
    plan = plans.pop(); base = len(plan)
    r, trace, dt, o = run_once(plan)
    npaths+=1; mx=max(mx,dt)
    if r != z3.unsat:
        bad+=1; print('FAIL', r, trace, o)
    for i in range(base, len(trace)):
        plans.append(trace[:i] + [not trace[i]])
print('paths', npaths, 'bad', bad, 'time', round(time.time()-t0,1), 'max final', round(mx,2))
