import sys, asyncio, contextvars, argparse, itertools, time
sys.argv=['x','--no-log']
import mpyc
from mpyc import runtime as rtmod, asyncoro, sectypes, mpctools, seclists, secgroups, thresha, finfields
import mpyc.random, mpyc.statistics, mpyc.secpols
from mpyc.runtime import Runtime, Party
exec(open(__file__.rsplit('/',1)[0]+'/mp_harness_concrete.py').read().split("async def prog(rt):")[0].split("import mpyc.random, mpyc.statistics, mpyc.secpols\nfrom mpyc.runtime import Runtime, Party")[1])

class Poly:
    __slots__=('d',)
    def __init__(self, d): self.d = {k:v for k,v in d.items() if v}
    @staticmethod
    def const(c): return Poly({():c})
    @staticmethod
    def var(name): return Poly({((name,1),):1})
    def __add__(a,b): 
        d=dict(a.d)
        for k,v in b.d.items(): d[k]=d.get(k,0)+v
        return Poly(d)
    def __neg__(a): return Poly({k:-v for k,v in a.d.items()})
    def __sub__(a,b): return a+(-b)
    def __mul__(a,b):
        d={}
        for k1,v1 in a.d.items():
            for k2,v2 in b.d.items():
                m=dict(k1)
                for x,e in k2: m[x]=m.get(x,0)+e
                k=tuple(sorted(m.items())); d[k]=d.get(k,0)+v1*v2
        return Poly(d)
    def mod(a,p): return Poly({k:v%p for k,v in a.d.items()})
    def is_zero_mod(a,p): return all(v%p==0 for v in a.d.values())

class SymInt(int):
    def __new__(cls, poly, P=None):
        o=int.__new__(cls, 0xDEADBEEFCAFE); o.p=poly; o.P=P; return o
    @staticmethod
    def of(x): return x if isinstance(x,SymInt) else SymInt(Poly.const(int(x)))
    def _b(s,o,f):
        if not isinstance(o,int): return NotImplemented
        o=SymInt.of(o); P=s.P or o.P
        r=f(s.p,o.p)
        return SymInt(r.mod(P) if P else r, P)
    def __add__(s,o): return s._b(o,lambda a,b:a+b)
    __radd__=__add__
    def __sub__(s,o): return s._b(o,lambda a,b:a-b)
    def __rsub__(s,o): return SymInt.of(o)._b(s,lambda a,b:a-b)
    def __mul__(s,o): return s._b(o,lambda a,b:a*b)
    __rmul__=__mul__
    def __neg__(s): return SymInt(-s.p, s.P)
    def __mod__(s,m):
        assert s.P in (None,m); return SymInt(s.p.mod(m), m)
    def __bool__(s): raise RuntimeError('branch on symbol')
    def __eq__(s,o): raise RuntimeError('eq on symbol')
    def __hash__(s): return id(s)
    def __index__(s): raise RuntimeError('concretised')
    def __repr__(s): return f'Sym({len(s.p.d)} terms mod {s.P})'

CNT=[0]
import secrets
def randbelow(n):
    CNT[0]+=1; return SymInt(Poly.var(f'c{CNT[0]}'))
secrets.randbelow = randbelow
# marshalling stubs (contract C22: from_bytes(to_bytes(x)) == x)
finfields.FiniteFieldElement.to_bytes = classmethod(lambda cls, x: ('BYTES', list(x)))
finfields.FiniteFieldElement.from_bytes = classmethod(lambda cls, data: list(data[1]))

async def prog(rt):
    secint = rt.SecInt(8)
    x = secint(SymInt(Poly.var(f'x{rt.pid}')))
    a = rt.input(x)
    c = a[0] * a[1] + a[2]
    sh = await rt.gather(c)
    return (await rt.output(c, raw=True)).value, sh.value

for (m,t) in [(3,1),(5,2),(7,3)]:
    t0=time.time(); CNT[0]=0
    thresha._recombination_vector.cache_clear()
    loop, net, rts = make_parties(m, t, no_prss=True)
    CUR.set(rts[0])
    res = run_all(loop, rts, prog)
    p = rts[0].SecInt(8).field.modulus
    X=[Poly.var(f'x{i}') for i in range(m)]
    expect = X[0]*X[1]+X[2]
    ok_out = all((SymInt.of(o).p - expect).is_zero_mod(p) for o,_ in res)
    # degree check of shares: interpolate through first t+1 shares and compare remaining, plus value at 0
    from fractions import Fraction
    def lagr(xs, x):   # coefficients mod p
        out=[]
        for i,xi in enumerate(xs):
            n=d=1
            for j,xj in enumerate(xs):
                if i!=j: n=n*(x-xj)%p; d=d*(xi-xj)%p
            out.append(n*pow(d,-1,p)%p)
        return out
    shares=[SymInt.of(s).p for _,s in res]
    xs=list(range(1,t+2))
    ok_deg=True
    for j in list(range(t+1,m))+[-1]:
        lam=lagr(xs, j+1)
        acc=Poly({})
        for l_,s in zip(lam, shares[:t+1]): acc = acc + Poly.const(l_)*s
        target = shares[j] if j>=0 else expect
        ok_deg &= (acc-target).is_zero_mod(p)
    print(m,t,'output ok',ok_out,'degree-t sharing of value ok',ok_deg,'msgs',len(net.sent),'left',len(net.box),len(net.wait),'symbols',CNT[0],'time',round(time.time()-t0,2))
