import sys, math, itertools; sys.argv=['x','--no-log']
from mpyc import gmpy, gfpx, finfields
def isprime(n): return n>=2 and all(n%d for d in range(2,int(n**.5)+1))
bad=[]
# is_prime / next / prev
for x in range(-5,20000):
    if gmpy.is_prime(x)!=isprime(x): bad.append(('is_prime',x))
for x in range(-3,3000):
    n=gmpy.next_prime(x); 
    if not(isprime(n) and n>x and not any(isprime(y) for y in range(max(x+1,2),n))): bad.append(('next_prime',x,n))
for x in range(3,3000):
    n=gmpy.prev_prime(x)
    if not(isprime(n) and n<x and not any(isprime(y) for y in range(n+1,x))): bad.append(('prev_prime',x,n))
# invert / gcdext
for m in range(-40,41):
    for x in range(-60,61):
        try:
            y=gmpy.invert(x,m); ok = m!=0 and (x*y-1)%abs(m)==0 and (0<=y<abs(m))
            if not ok: bad.append(('invert',x,m,y))
            if math.gcd(x,m)!=1: bad.append(('invert-should-raise',x,m,y))
        except ZeroDivisionError:
            if m!=0 and math.gcd(x,abs(m))==1 : bad.append(('invert-raised',x,m))
for a in range(-60,61):
    for b in range(-60,61):
        g,s,t=gmpy.gcdext(a,b)
        if g!=math.gcd(a,b) or g!=a*s+b*t: bad.append(('gcdext',a,b,g,s,t))
# jacobi vs definition
def legendre_def(a,p):
    a%=p
    if a==0: return 0
    return 1 if pow(a,(p-1)//2,p)==1 else -1
def jacobi_def(a,n):
    r=1; m=n; d=2
    f=[]
    while m>1:
        if m%d==0: f.append(d); m//=d
        else: d+=1
    for p in f: r*=legendre_def(a,p)
    return r
for y in range(1,200,2):
    for x in range(-200,200):
        if gmpy.jacobi(x,y)!=jacobi_def(x,y): bad.append(('jacobi',x,y,gmpy.jacobi(x,y),jacobi_def(x,y)))
def kron_def(a,n):
    if n==0: return 1 if abs(a)==1 else 0
    r=1
    if n<0:
        n=-n
        if a<0: r=-1
    while n%2==0:
        n//=2
        if a%2==0: return 0
        r*= 1 if a%8 in (1,7) else -1
    return r*jacobi_def(a,n)
for y in range(-60,61):
    for x in range(-60,61):
        if gmpy.kronecker(x,y)!=kron_def(x,y): bad.append(('kronecker',x,y,gmpy.kronecker(x,y),kron_def(x,y)))
# iroot, is_square, isqrt
for x in range(0,5000):
    if gmpy.is_square(x)!=(math.isqrt(x)**2==x): bad.append(('is_square',x))
    for n in range(1,8):
        y,b=gmpy.iroot(x,n)
        if not(y**n<=x<(y+1)**n and b==(y**n==x)): bad.append(('iroot',x,n,y,b))
# factor_prime_power
for x in range(-2,5000):
    exp=None
    for p in range(2,x+1):
        if isprime(p) and x%p==0:
            d=0; z=x
            while z%p==0: z//=p; d+=1
            exp=(p,d) if z==1 else None
            break
    try:
        r=gmpy.factor_prime_power(x)
        if r!=exp: bad.append(('fpp',x,r,exp))
    except ValueError:
        if exp is not None: bad.append(('fpp-raised',x,exp))
for p,d in [(1021,3),(1031,2),(1031,5),(65537,3),(2**61-1,2),(1000003,4),(1009,1)]:
    if gmpy.factor_prime_power(p**d)!=(p,d): bad.append(('fpp-big',p,d,gmpy.factor_prime_power(p**d)))
for x in [1031*1033, 1031**2*1033, 2**61-3+2, (2**31-1)*(2**31+11)]:
    try: bad.append(('fpp-should-raise',x,gmpy.factor_prime_power(x)))
    except ValueError: pass
# ratrec
from fractions import Fraction
for y in [101, 257, 1009]:
    Dd=max(1, math.isqrt((y-1)//2)); N=(y-1)//(2*Dd)
    for n in range(-N,N+1):
        for d in range(1,Dd+1):
            if math.gcd(n,d)==1 and math.gcd(d,y)==1:
                x=n*pow(d,-1,y)%y
                try:
                    r=gmpy.ratrec(x,y)
                    if r!=(n,d): bad.append(('ratrec',x,y,r,(n,d)))
                except ValueError as e: bad.append(('ratrec-raised',x,y,(n,d)))
print('bad', len(bad), bad[:15])
