import sys, time, os; sys.argv=['x','--no-log']
import z3
exec(open('/verif/design_probes/symint_sgn_value_mode.py').read().split("rt = mpc")[0])
rt = mpc
N = int(os.environ.get('N','6')); ENC=os.environ.get('ENC','bool')
secint = mpc.SecInt(16); Zp=secint.field; p=Zp.modulus
def bitvar(name):
    C.n+=1
    if ENC=='bool':
        b=z3.Bool(f'{name}_{C.n}'); return SymInt(z3.If(b,1,0),0,1)
    return C.fresh(name,0,2)
C.reset([]); 
xs=[bitvar('x') for _ in range(N)]; ys=[bitvar('y') for _ in range(N)]
t0=time.time()
res = mpc.add_bits([secint(b) for b in xs],[secint(b) for b in ys])
outs = mpc.run(mpc.output(res, raw=True))
print('exec', round(time.time()-t0,2))
X=sum(x.z*(1<<i) for i,x in enumerate(xs)); Y=sum(y.z*(1<<i) for i,y in enumerate(ys))
tot=(X+Y)%(1<<N)
s=z3.Solver(); s.add(*C.pc)
bad=[]
for i,o in enumerate(outs):
    v=SymInt.of(o.value)
    goal = (v.z - ((tot/(1<<i))%2)*v.D) % p == 0
    bad.append(z3.Not(goal))
s.add(z3.Or(*bad)); s.set('timeout',120000)
t0=time.time(); print(ENC,N,s.check(), round(time.time()-t0,2))
