import sys; sys.argv=['x','--no-log']
from mpyc import gfpx, finfields
F = finfields.GF(finfields.find_irreducible(3,2)); print(F, F.modulus)
a = F(1)
print('a<<2 =', a<<2, ' a*4 =', a*4, ' a*F(4) =', a*F(4), ' (a<<2)>>2 =', (a<<2)>>2, ' (a>>2)<<2 =', (a>>2)<<2)
b = F(5); c = F(5); c <<= 1; print('b<<1', b<<1, 'b*2', b*2, 'ilshift', c)
P = gfpx.GFpX(3)
print('powmod(x^2+1,1,x)=', P.powmod(P('x^2+1'),1,P('x')), ' (x^2+1)%x=', P('x^2+1')%P('x'), 'powmod(..,0, 2)=', P.powmod(P('x'),0,P(2)), 'powmod(..,2,x)=',P.powmod(P('x^2+1'),2,P('x')))
P2 = gfpx.GFpX(2)
print('binary powmod(x^2+1,1,x)=', P2.powmod(P2('x^2+1'),1,P2('x')), P2.powmod(P2('x^2+1'),-1,P2('x')), P.powmod(P('x^2+1'),-1,P('x')))
