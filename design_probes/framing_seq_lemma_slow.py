import z3, time
B = z3.SeqSort(z3.IntSort())
le_u32 = z3.Function('le_u32', B, z3.IntSort())
rest = z3.Function('rest', B, B)
nmsgs = z3.Function('nmsgs', B, z3.IntSort())
def size(b): return le_u32(z3.SubSeq(b, 8, 4))
def complete(b): return z3.And(z3.Length(b) >= 12, z3.Length(b) >= 12 + size(b))
def drop(b,k): return z3.SubSeq(b, k, z3.Length(b)-k)
def unfold(b):
    return z3.And(z3.Implies(complete(b), z3.And(rest(b) == rest(drop(b, 12+size(b))), nmsgs(b) == 1 + nmsgs(drop(b, 12+size(b))))),
                  z3.Implies(z3.Not(complete(b)), z3.And(rest(b) == b, nmsgs(b) == 0)))
x = z3.Const('x', B)
S, c = z3.Consts('S c', B)
s = z3.Solver()
s.add(z3.ForAll([x], le_u32(x) >= 0))
# step case of chunking lemma
S1 = drop(S, 12+size(S))
s.add(complete(S))
s.add(unfold(S), unfold(z3.Concat(S,c)), unfold(S1), unfold(z3.Concat(S1,c)))
# IH on S1
s.add(rest(z3.Concat(rest(S1), c)) == rest(z3.Concat(S1, c)))
s.add(nmsgs(z3.Concat(S1,c)) == nmsgs(S1) + nmsgs(z3.Concat(rest(S1), c)))
goal = z3.And(rest(z3.Concat(rest(S), c)) == rest(z3.Concat(S, c)),
              nmsgs(z3.Concat(S,c)) == nmsgs(S) + nmsgs(z3.Concat(rest(S), c)))
s.add(z3.Not(goal))
open('q5.smt2','w').write("(set-logic ALL)\n"+s.to_smt2())
s.set('timeout', 60000)
t=time.time(); print(s.check(), round(time.time()-t,2))
